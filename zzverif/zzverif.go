// Package zzverif is the support package of the verification harnesses.
//
// The symbolic engine (/verif/engine) intercepts every exported function of
// this package by name and never executes the bodies below. The bodies are the
// NATIVE implementation used when a harness is compiled with the real Go
// compiler to replay a solver model (counterexample or path witness): nondet
// functions then return the values recorded in the replay file.
package zzverif

import (
	"encoding/json"
	"fmt"
	"math/big"
	"os"
	"reflect"
	"sort"
	"strconv"
	"testing"
)

type caseState struct {
	inputs map[string]uint64
	seq    map[string]int
	events []string
	tier   string
}

var cur = &caseState{inputs: map[string]uint64{}, seq: map[string]int{}, tier: "quick"}

type stopCase struct{ why string }

func uniq(name string) string {
	k := cur.seq[name]
	cur.seq[name]++
	if k == 0 {
		return name
	}
	return name + "#" + strconv.Itoa(k)
}

// ---- nondeterministic inputs ----

func Byte(name string) byte { return byte(cur.inputs[uniq(name)]) }

func Bytes(name string, n int) []byte {
	base := uniq(name)
	b := make([]byte, n)
	for i := range b {
		b[i] = byte(cur.inputs[base+"["+strconv.Itoa(i)+"]"])
	}
	return b
}

func Bool(name string) bool { return cur.inputs[uniq(name)] != 0 }

func U64(name string) uint64 { return cur.inputs[uniq(name)] }

// IntRange returns an arbitrary int in [lo, hi].
func IntRange(name string, lo, hi int) int {
	v := int(int64(cur.inputs[uniq(name)]))
	if v < lo || v > hi {
		panic(stopCase{"assume-fail: IntRange " + name})
	}
	return v
}

// OneOf returns an arbitrary byte of the (non-empty) alphabet.
func OneOf(name string, alphabet string) byte {
	c := Byte(name)
	for i := 0; i < len(alphabet); i++ {
		if alphabet[i] == c {
			return c
		}
	}
	panic(stopCase{"assume-fail: OneOf " + name})
}

// Digit returns an arbitrary ASCII digit.
func Digit(name string) byte { return OneOf(name, "0123456789") }

// ---- assumptions, obligations, witnesses ----

func Assume(c bool) {
	if !c {
		panic(stopCase{"assume-fail"})
	}
}

func Assert(c bool, label string) {
	if !c {
		cur.events = append(cur.events, "assert-fail:"+label)
		panic(stopCase{"assert"})
	}
}

// Known declares the predicate (over the harness inputs) of a known finding.
// When the finding is listed in /verif/known_findings.json, obligations that
// fail only inside the predicate are reported as KNOWN-FINDING.
func Known(name string, c bool) {}

func Reach(label string) { cur.events = append(cur.events, "reach:"+label) }

// Expect declares Reach labels that some path of the harness must hit.
func Expect(labels ...string) {}

func fmtVal(v interface{}) string {
	switch v := v.(type) {
	case bool:
		return strconv.FormatBool(v)
	case int:
		return strconv.FormatUint(uint64(v), 10)
	case int8:
		return strconv.FormatUint(uint64(uint8(v)), 10)
	case int16:
		return strconv.FormatUint(uint64(uint16(v)), 10)
	case int32:
		return strconv.FormatUint(uint64(uint32(v)), 10)
	case int64:
		return strconv.FormatUint(uint64(v), 10)
	case uint:
		return strconv.FormatUint(uint64(v), 10)
	case uint8:
		return strconv.FormatUint(uint64(v), 10)
	case uint16:
		return strconv.FormatUint(uint64(v), 10)
	case uint32:
		return strconv.FormatUint(uint64(v), 10)
	case uint64:
		return strconv.FormatUint(v, 10)
	case string:
		return strconv.Quote(v)
	case []byte:
		return strconv.Quote(string(v))
	}
	return fmt.Sprintf("<%T>", v)
}

// Observe records values; the engine predicts them from the path's model and
// the native replay must print the same.
func Observe(label string, vals ...interface{}) {
	s := "observe:" + label + "="
	for i, v := range vals {
		if i > 0 {
			s += ","
		}
		s += fmtVal(v)
	}
	cur.events = append(cur.events, s)
}

// ---- engine parameters ----

// Bound returns a tier dependent constant.
func Bound(name string, quick, thorough int) int {
	if cur.tier == "thorough" {
		return thorough
	}
	return quick
}

// SetMapOrder selects the engine's map iteration order (0 insertion,
// 1 reverse, k>=2 rotation by k-1). No effect natively.
func SetMapOrder(k int) {}

// SetPoolMode selects the sync.Pool model: 0 lifo (Get returns the most recent
// Put), 1 fresh (Get always calls New). No effect natively.
func SetPoolMode(m int) {}

// BoundIsViolation makes an exhausted step/depth budget a violation of the
// harness (hang / stack overflow candidate) instead of an inconclusive path.
func BoundIsViolation() {}

// StubJSONValues makes the engine replace encoding/json.Marshal of non-string
// values (reflection, not executed symbolically) by the token 0, so that the
// text AROUND the values (keys, order, separators) can still be checked. No
// effect natively, where the real value JSON appears.
func StubJSONValues() {}

// Opaque reports whether the engine would treat s as an opaque string; always
// false natively. Harnesses use it only to skip message text.
func Opaque(s string) bool { return false }

// Same reports structural equality of two values of the same type: pointers,
// slices, maps and interfaces are followed (unexported fields included), a nil
// slice or map equals an empty one, functions are equal only when both are
// nil. The engine computes the same relation over its own value
// representation, with symbolic leaves compared by the solver.
func Same(a, b interface{}) bool {
	if a == nil || b == nil {
		return a == nil && b == nil
	}
	va, vb := reflect.ValueOf(a), reflect.ValueOf(b)
	if va.Type() != vb.Type() {
		return false
	}
	return sameValue(va, vb, 0)
}

func sameValue(a, b reflect.Value, depth int) bool {
	if depth > 200 {
		panic("zzverif.Same: structure deeper than 200 (cyclic?)")
	}
	switch a.Kind() {
	case reflect.Ptr:
		if a.IsNil() || b.IsNil() {
			return a.IsNil() && b.IsNil()
		}
		if a.Pointer() == b.Pointer() {
			return true
		}
		return sameValue(a.Elem(), b.Elem(), depth+1)
	case reflect.Slice:
		if a.Len() != b.Len() {
			return false
		}
		for i := 0; i < a.Len(); i++ {
			if !sameValue(a.Index(i), b.Index(i), depth+1) {
				return false
			}
		}
		return true
	case reflect.Array:
		for i := 0; i < a.Len(); i++ {
			if !sameValue(a.Index(i), b.Index(i), depth+1) {
				return false
			}
		}
		return true
	case reflect.Struct:
		for i := 0; i < a.NumField(); i++ {
			if !sameValue(a.Field(i), b.Field(i), depth+1) {
				return false
			}
		}
		return true
	case reflect.Map:
		if a.Len() != b.Len() {
			return false
		}
		it := a.MapRange()
		for it.Next() {
			o := b.MapIndex(it.Key())
			if !o.IsValid() || !sameValue(it.Value(), o, depth+1) {
				return false
			}
		}
		return true
	case reflect.Interface:
		if a.IsNil() || b.IsNil() {
			return a.IsNil() && b.IsNil()
		}
		if a.Elem().Type() != b.Elem().Type() {
			return false
		}
		return sameValue(a.Elem(), b.Elem(), depth+1)
	case reflect.Func:
		return a.IsNil() && b.IsNil()
	case reflect.Bool:
		return a.Bool() == b.Bool()
	case reflect.Int, reflect.Int8, reflect.Int16, reflect.Int32, reflect.Int64:
		return a.Int() == b.Int()
	case reflect.Uint, reflect.Uint8, reflect.Uint16, reflect.Uint32, reflect.Uint64, reflect.Uintptr:
		return a.Uint() == b.Uint()
	case reflect.Float32, reflect.Float64:
		return a.Float() == b.Float()
	case reflect.String:
		return a.String() == b.String()
	}
	panic("zzverif.Same: unsupported kind " + a.Kind().String())
}

// ---- mathematical integers for oracles ----

type Int struct{ v *big.Int }

func (a Int) big() *big.Int {
	if a.v == nil {
		return new(big.Int)
	}
	return a.v
}

func IntConst(v int64) Int { return Int{big.NewInt(v)} }

func IntOfUint(u uint64) Int { return Int{new(big.Int).SetUint64(u)} }

// IntOfDigits is the value of the decimal digit string b (empty = 0). Bytes
// outside '0'..'9' are a harness error.
func IntOfDigits(b []byte) Int {
	r := new(big.Int)
	ten := big.NewInt(10)
	for _, c := range b {
		r.Mul(r, ten)
		r.Add(r, big.NewInt(int64(c)-'0'))
	}
	return Int{r}
}

func (a Int) Add(b Int) Int { return Int{new(big.Int).Add(a.big(), b.big())} }
func (a Int) Sub(b Int) Int { return Int{new(big.Int).Sub(a.big(), b.big())} }
func (a Int) Mul(b Int) Int { return Int{new(big.Int).Mul(a.big(), b.big())} }
func (a Int) Neg() Int      { return Int{new(big.Int).Neg(a.big())} }

// MulPow10 multiplies by 10^k for a concrete k >= 0.
func (a Int) MulPow10(k int) Int {
	p := new(big.Int).Exp(big.NewInt(10), big.NewInt(int64(k)), nil)
	return Int{p.Mul(p, a.big())}
}
func (a Int) Lt(b Int) bool { return a.big().Cmp(b.big()) < 0 }
func (a Int) Le(b Int) bool { return a.big().Cmp(b.big()) <= 0 }
func (a Int) Eq(b Int) bool { return a.big().Cmp(b.big()) == 0 }

// ---- native replay driver ----

type ReplayCase struct {
	ID      int               `json:"id"`
	Pkg     string            `json:"pkg"`
	Harness string            `json:"harness"`
	Inputs  map[string]uint64 `json:"inputs"`
	// Repeat > 1: run the case up to Repeat times and keep the first run that
	// fails an assertion or panics (violations that depend on Go's randomised
	// map iteration order cannot be forced natively, only repeated).
	Repeat int `json:"repeat,omitempty"`
}

type ReplayFile struct {
	Tier  string       `json:"tier"`
	Cases []ReplayCase `json:"cases"`
}

type ReplayResult struct {
	ID     int      `json:"id"`
	Start  bool     `json:"start,omitempty"`
	Events []string `json:"events"`
	End    string   `json:"end"` // ok | stop:<why> | panic:<text>
}

func runCase(f func(), c ReplayCase, tier string) (res ReplayResult) {
	cur = &caseState{inputs: c.Inputs, seq: map[string]int{}, tier: tier}
	res.ID = c.ID
	defer func() {
		res.Events = cur.events
		if r := recover(); r != nil {
			if s, ok := r.(stopCase); ok {
				res.End = "stop:" + s.why
			} else {
				res.End = "panic:" + fmt.Sprintf("%T", r)
			}
			return
		}
		res.End = "ok"
	}()
	f()
	return
}

// RunReplay executes every case of $VERIF_REPLAY_FILE that belongs to one of
// the given harness functions and writes one JSON result per line to
// $VERIF_REPLAY_OUT.
func RunReplay(t *testing.T, pkg string, harnesses map[string]func()) {
	path := os.Getenv("VERIF_REPLAY_FILE")
	if path == "" {
		t.Skip("no VERIF_REPLAY_FILE")
	}
	data, err := os.ReadFile(path)
	if err != nil {
		t.Fatal(err)
	}
	var rf ReplayFile
	if err := json.Unmarshal(data, &rf); err != nil {
		t.Fatal(err)
	}
	out, err := os.OpenFile(os.Getenv("VERIF_REPLAY_OUT"), os.O_APPEND|os.O_CREATE|os.O_WRONLY, 0o644)
	if err != nil {
		t.Fatal(err)
	}
	defer out.Close()
	sort.SliceStable(rf.Cases, func(i, j int) bool { return rf.Cases[i].ID < rf.Cases[j].ID })
	enc := json.NewEncoder(out)
	for _, c := range rf.Cases {
		f, ok := harnesses[c.Harness]
		if !ok || c.Pkg != pkg {
			continue
		}
		fmt.Fprintf(out, "{\"id\":%d,\"start\":true}\n", c.ID)
		out.Sync()
		res := runCase(f, c, rf.Tier)
		for k := 1; k < c.Repeat && res.End == "ok"; k++ {
			res = runCase(f, c, rf.Tier)
		}
		if err := enc.Encode(res); err != nil {
			t.Fatal(err)
		}
	}
}
