// Package zzdiag holds the C16 statement about one returned error, shared by
// the entry-point harnesses of several packages (interpreted by the engine
// like any other harness code).
package zzdiag

import (
	"github.com/jsightapi/jsight-schema-core/errs"
	"github.com/jsightapi/jsight-schema-core/kit"
	"github.com/jsightapi/jsight-schema-core/zzverif"
)

func hasPrefix(s, p string) bool { return len(s) >= len(p) && s[:len(p)] == p }

// Diag: a rejection is a diagnostic with a stable code - never a raw Go
// runtime error, never the 'internal failure' code, never a recovered runtime
// error re-labelled as a generic message; a position, if any, lies inside the
// text; rendering the diagnostic succeeds.
func Diag(err error, textLen int) {
	if err == nil {
		return
	}
	zzverif.Reach("rejected")
	var code errs.Code
	var msg string
	switch e := err.(type) {
	case kit.JSchemaError:
		code, msg = e.Code(), e.Message()
		zzverif.Assert(int(e.Index()) < textLen || e.Index() == 0, "the position lies inside the text")
		if e.Index() > 0 {
			// also when several texts are involved (a project of types): the
			// index must lie inside the text of the file the diagnostic names,
			// otherwise line and column come out as 0
			zzverif.Assert(e.Line() >= 1 && e.Column() >= 1, "line and column of a positioned diagnostic are 1-based (the index lies inside the file it names)")
		}
		s := e.Error()
		zzverif.Assert(zzverif.Opaque(s) || len(s) > 0, "the diagnostic renders")
	case *errs.Err:
		code, msg = e.Code(), e.Error()
	default:
		zzverif.Assert(false, "a rejection is a diagnostic (kit.JSchemaError or *errs.Err), not a raw Go error")
		return
	}
	zzverif.Assert(code != errs.ErrRuntimeFailure, "not the internal-failure code")
	if !zzverif.Opaque(msg) {
		zzverif.Assert(!hasPrefix(msg, "runtime error") && !hasPrefix(msg, "interface conversion"),
			"not a recovered Go runtime error re-labelled as a message")
	}
}
