// Package zzjson is the harnesses' reference RFC 8259 decoder (DESIGN.md B.2):
// it flattens a JSON text (without exponent numbers) into a canonical event
// list with decoded keys and strings. Interpreted by the engine like any
// harness code; validated natively against encoding/json by its own test.
package zzjson

// ---- reference JSON decoder producing a canonical event list (DESIGN.md B.2) ----

type Ev struct {
	Kind byte   // { } [ ] k s n t f z
	Val  string // decoded key/string, number literal
}

type jDec struct {
	b  []byte
	i  int
	ev []Ev
}

func jBlank(c byte) bool { return c == ' ' || c == '\t' || c == '\n' || c == '\r' }
func jDigit(c byte) bool { return c >= '0' && c <= '9' }

func jHexVal(c byte) (int, bool) {
	switch {
	case c >= '0' && c <= '9':
		return int(c - '0'), true
	case c >= 'a' && c <= 'f':
		return int(c-'a') + 10, true
	case c >= 'A' && c <= 'F':
		return int(c-'A') + 10, true
	}
	return 0, false
}

func jEncodeRune(out []byte, r int) []byte {
	switch {
	case r < 0x80:
		return append(out, byte(r))
	case r < 0x800:
		return append(out, byte(0xC0|r>>6), byte(0x80|r&0x3F))
	case r < 0x10000:
		return append(out, byte(0xE0|r>>12), byte(0x80|(r>>6)&0x3F), byte(0x80|r&0x3F))
	}
	return append(out, byte(0xF0|r>>18), byte(0x80|(r>>12)&0x3F), byte(0x80|(r>>6)&0x3F), byte(0x80|r&0x3F))
}

func (d *jDec) ws() {
	for d.i < len(d.b) && jBlank(d.b[d.i]) {
		d.i++
	}
}

func (d *jDec) hex4() (int, bool) {
	if d.i+4 > len(d.b) {
		return 0, false
	}
	r := 0
	for k := 0; k < 4; k++ {
		h, ok := jHexVal(d.b[d.i+k])
		if !ok {
			return 0, false
		}
		r = r<<4 | h
	}
	d.i += 4
	return r, true
}

// str decodes the string literal at d.i (pointing at the opening quote).
func (d *jDec) str() ([]byte, bool) {
	d.i++
	var out []byte
	for d.i < len(d.b) {
		c := d.b[d.i]
		switch {
		case c == '"':
			d.i++
			return out, true
		case c == '\\':
			d.i++
			if d.i >= len(d.b) {
				return nil, false
			}
			e := d.b[d.i]
			d.i++
			switch e {
			case '"', '\\', '/':
				out = append(out, e)
			case 'b':
				out = append(out, '\b')
			case 'f':
				out = append(out, '\f')
			case 'n':
				out = append(out, '\n')
			case 'r':
				out = append(out, '\r')
			case 't':
				out = append(out, '\t')
			case 'u':
				r, ok := d.hex4()
				if !ok {
					return nil, false
				}
				if r >= 0xD800 && r < 0xDC00 && d.i+6 <= len(d.b) && d.b[d.i] == '\\' && d.b[d.i+1] == 'u' {
					save := d.i
					d.i += 2
					r2, ok2 := d.hex4()
					if ok2 && r2 >= 0xDC00 && r2 < 0xE000 {
						out = jEncodeRune(out, 0x10000+(r-0xD800)<<10+(r2-0xDC00))
						continue
					}
					d.i = save
				}
				if r >= 0xD800 && r < 0xE000 {
					r = 0xFFFD
				}
				out = jEncodeRune(out, r)
			default:
				return nil, false
			}
		case c < 0x20:
			return nil, false
		default:
			out = append(out, c)
			d.i++
		}
	}
	return nil, false
}

func (d *jDec) value(depth int) bool {
	d.ws()
	if d.i >= len(d.b) || depth > 200 {
		return false
	}
	c := d.b[d.i]
	switch {
	case c == '{':
		d.ev = append(d.ev, Ev{'{', ""})
		d.i++
		d.ws()
		if d.i < len(d.b) && d.b[d.i] == '}' {
			d.i++
			d.ev = append(d.ev, Ev{'}', ""})
			return true
		}
		for {
			d.ws()
			if d.i >= len(d.b) || d.b[d.i] != '"' {
				return false
			}
			k, ok := d.str()
			if !ok {
				return false
			}
			d.ev = append(d.ev, Ev{'k', string(k)})
			d.ws()
			if d.i >= len(d.b) || d.b[d.i] != ':' {
				return false
			}
			d.i++
			if !d.value(depth + 1) {
				return false
			}
			d.ws()
			if d.i >= len(d.b) {
				return false
			}
			if d.b[d.i] == ',' {
				d.i++
				continue
			}
			if d.b[d.i] == '}' {
				d.i++
				d.ev = append(d.ev, Ev{'}', ""})
				return true
			}
			return false
		}
	case c == '[':
		d.ev = append(d.ev, Ev{'[', ""})
		d.i++
		d.ws()
		if d.i < len(d.b) && d.b[d.i] == ']' {
			d.i++
			d.ev = append(d.ev, Ev{']', ""})
			return true
		}
		for {
			if !d.value(depth + 1) {
				return false
			}
			d.ws()
			if d.i >= len(d.b) {
				return false
			}
			if d.b[d.i] == ',' {
				d.i++
				continue
			}
			if d.b[d.i] == ']' {
				d.i++
				d.ev = append(d.ev, Ev{']', ""})
				return true
			}
			return false
		}
	case c == '"':
		s, ok := d.str()
		if !ok {
			return false
		}
		d.ev = append(d.ev, Ev{'s', string(s)})
		return true
	case c == '-' || jDigit(c):
		st := d.i
		if c == '-' {
			d.i++
		}
		if d.i >= len(d.b) || !jDigit(d.b[d.i]) {
			return false
		}
		if d.b[d.i] == '0' {
			d.i++
		} else {
			for d.i < len(d.b) && jDigit(d.b[d.i]) {
				d.i++
			}
		}
		if d.i < len(d.b) && d.b[d.i] == '.' {
			d.i++
			if d.i >= len(d.b) || !jDigit(d.b[d.i]) {
				return false
			}
			for d.i < len(d.b) && jDigit(d.b[d.i]) {
				d.i++
			}
		}
		if d.i < len(d.b) && (d.b[d.i] == 'e' || d.b[d.i] == 'E') {
			return false // exponent forms are outside the property
		}
		d.ev = append(d.ev, Ev{'n', string(d.b[st:d.i])})
		return true
	case c == 't' && d.i+4 <= len(d.b) && string(d.b[d.i:d.i+4]) == "true":
		d.i += 4
		d.ev = append(d.ev, Ev{'t', ""})
		return true
	case c == 'f' && d.i+5 <= len(d.b) && string(d.b[d.i:d.i+5]) == "false":
		d.i += 5
		d.ev = append(d.ev, Ev{'f', ""})
		return true
	case c == 'n' && d.i+4 <= len(d.b) && string(d.b[d.i:d.i+4]) == "null":
		d.i += 4
		d.ev = append(d.ev, Ev{'z', ""})
		return true
	}
	return false
}

func Decode(b []byte) ([]Ev, bool) {
	d := &jDec{b: b}
	if !d.value(0) {
		return nil, false
	}
	d.ws()
	if d.i != len(b) {
		return nil, false
	}
	return d.ev, true
}

func Same(a, b []Ev) bool {
	if len(a) != len(b) {
		return false
	}
	for i := range a {
		if a[i].Kind != b[i].Kind || a[i].Val != b[i].Val {
			return false
		}
	}
	return true
}
