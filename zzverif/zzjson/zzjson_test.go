package zzjson

import (
	"encoding/json"
	"math/rand"
	"strings"
	"testing"
	"unicode/utf8"
)

// hasExponent: Decode deliberately refuses exponent numbers.
func hasExponentNumber(s string) bool {
	dec := json.NewDecoder(strings.NewReader(s))
	dec.UseNumber()
	for {
		tok, err := dec.Token()
		if err != nil {
			return false
		}
		if n, ok := tok.(json.Number); ok && strings.ContainsAny(string(n), "eE") {
			return true
		}
	}
}

func flatten(v interface{}, out []Ev) []Ev {
	switch x := v.(type) {
	case orderedObj:
		out = append(out, Ev{'{', ""})
		for _, kv := range x {
			out = append(out, Ev{'k', kv.k})
			out = flatten(kv.v, out)
		}
		return append(out, Ev{'}', ""})
	case []interface{}:
		out = append(out, Ev{'[', ""})
		for _, e := range x {
			out = flatten(e, out)
		}
		return append(out, Ev{']', ""})
	case string:
		return append(out, Ev{'s', x})
	case json.Number:
		return append(out, Ev{'n', string(x)})
	case bool:
		if x {
			return append(out, Ev{'t', ""})
		}
		return append(out, Ev{'f', ""})
	case nil:
		return append(out, Ev{'z', ""})
	}
	panic("flatten")
}

type kv struct {
	k string
	v interface{}
}
type orderedObj []kv

// parseOrdered decodes with encoding/json's tokenizer, keeping key order.
func parseOrdered(dec *json.Decoder) (interface{}, error) {
	tok, err := dec.Token()
	if err != nil {
		return nil, err
	}
	switch t := tok.(type) {
	case json.Delim:
		switch t {
		case '{':
			obj := orderedObj{}
			for dec.More() {
				kt, err := dec.Token()
				if err != nil {
					return nil, err
				}
				v, err := parseOrdered(dec)
				if err != nil {
					return nil, err
				}
				obj = append(obj, kv{kt.(string), v})
			}
			if _, err := dec.Token(); err != nil {
				return nil, err
			}
			return obj, nil
		case '[':
			arr := []interface{}{}
			for dec.More() {
				v, err := parseOrdered(dec)
				if err != nil {
					return nil, err
				}
				arr = append(arr, v)
			}
			if _, err := dec.Token(); err != nil {
				return nil, err
			}
			return arr, nil
		}
	}
	return tok, nil
}

func check(t *testing.T, s string) {
	evs, ok := Decode([]byte(s))
	valid := json.Valid([]byte(s))
	if valid && hasExponentNumber(s) {
		if ok {
			t.Fatalf("%q: exponent number accepted", s)
		}
		return
	}
	if ok != valid {
		t.Fatalf("%q: Decode ok=%v json.Valid=%v", s, ok, valid)
	}
	if !ok || !utf8.ValidString(s) {
		// invalid UTF-8 inside strings: encoding/json substitutes U+FFFD, this
		// decoder keeps the bytes; such texts are not RFC 8259 JSON (outside B.2)
		return
	}
	dec := json.NewDecoder(strings.NewReader(s))
	dec.UseNumber()
	v, err := parseOrdered(dec)
	if err != nil {
		t.Fatalf("%q: %v", s, err)
	}
	want := flatten(v, nil)
	if !Same(evs, want) {
		t.Fatalf("%q: events differ\n got %v\nwant %v", s, evs, want)
	}
}

func TestExhaustiveShort(t *testing.T) {
	alpha := []byte(`{}[]",: \u0a1-.etrfalsnd` + "\n\x01\xc3\xa9")
	var rec func(prefix []byte, n int)
	count := 0
	rec = func(prefix []byte, n int) {
		check(t, string(prefix))
		count++
		if n == 0 {
			return
		}
		for _, c := range alpha {
			rec(append(prefix, c), n-1)
		}
	}
	rec(nil, 4)
	t.Logf("checked %d strings", count)
}

func TestRandomDocuments(t *testing.T) {
	rnd := rand.New(rand.NewSource(1))
	var gen func(depth int) string
	strs := []string{`""`, `"a"`, `"\""`, `"\\"`, `"\/"`, `"\b\f\n\r\t"`, `"A"`, `"é"`, `"😀"`, `"\ud83d"`, `"\udc00x"`, `"é€😀"`, `"a\u0000b"`}
	nums := []string{"0", "-0", "1", "-12", "0.5", "-0.50", "12.000", "100"}
	gen = func(depth int) string {
		switch k := rnd.Intn(7); {
		case k == 0 && depth < 3:
			n := rnd.Intn(3)
			parts := []string{}
			for i := 0; i < n; i++ {
				parts = append(parts, strs[rnd.Intn(len(strs))]+" : "+gen(depth+1))
			}
			return "{ " + strings.Join(parts, " ,\n") + " }"
		case k == 1 && depth < 3:
			n := rnd.Intn(3)
			parts := []string{}
			for i := 0; i < n; i++ {
				parts = append(parts, gen(depth+1))
			}
			return "[" + strings.Join(parts, ",") + "]"
		case k == 2:
			return nums[rnd.Intn(len(nums))]
		case k == 3:
			return []string{"true", "false", "null"}[rnd.Intn(3)]
		default:
			return strs[rnd.Intn(len(strs))]
		}
	}
	for i := 0; i < 100000; i++ {
		check(t, gen(0))
	}
}
