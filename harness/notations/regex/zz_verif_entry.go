package regex

import (
	"github.com/jsightapi/jsight-schema-core/zzverif"
	"github.com/jsightapi/jsight-schema-core/zzverif/zzdiag"
)

func vRegexEntryPoints(text []byte, diag bool) {
	n, err := New("r", text).Len()
	if diag {
		zzdiag.Diag(err, len(text))
	}
	if err == nil {
		zzverif.Assert(int(n) <= len(text), "Len() never exceeds the text")
	}
	r := New("r", text)
	err = r.Check()
	if diag {
		zzdiag.Diag(err, len(text))
	}
	if err == nil {
		zzverif.Reach("accepted")
	}
	_, err = r.GetAST()
	if diag {
		zzdiag.Diag(err, len(text))
	}
	_, err = r.Pattern()
	if diag {
		zzdiag.Diag(err, len(text))
	}
}

// VerifC02_RegexText: every operation of a regex schema except Example()
// (pattern-dependent generation is host code) on every text of up to N bytes;
// regexp.Compile is an uninterpreted validity predicate of the pattern.
func VerifC02_RegexText() {
	zzverif.Expect("accepted")
	zzverif.BoundIsViolation()
	n := zzverif.IntRange("len", 0, zzverif.Bound("N", 4, 6))
	vRegexEntryPoints(zzverif.Bytes("text", n), false)
}

// VerifC16_RegexText: same inputs; every rejection is a well-formed diagnostic.
func VerifC16_RegexText() {
	zzverif.Expect("accepted", "rejected")
	n := zzverif.IntRange("len", 0, zzverif.Bound("N", 4, 6))
	vRegexEntryPoints(zzverif.Bytes("text", n), true)
}
