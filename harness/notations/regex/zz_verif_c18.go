package regex

import (
	"regexp"

	"github.com/jsightapi/jsight-schema-core/errs"
	"github.com/jsightapi/jsight-schema-core/kit"
	"github.com/jsightapi/jsight-schema-core/zzverif"
)

// vDelimited: the text starts with '/' and contains a later '/' preceded by an
// even number of backslashes; end = index of that closing delimiter.
func vDelimited(b []byte) (ok bool, end int) {
	if len(b) == 0 || b[0] != '/' {
		return false, 0
	}
	esc := false
	for i := 1; i < len(b); i++ {
		switch {
		case b[i] == '\\':
			esc = !esc
		case b[i] == '/' && !esc:
			return true, i
		default:
			esc = false
		}
	}
	return false, 0
}

func vCode(err error) errs.Code {
	if e, ok := err.(kit.JSchemaError); ok {
		return e.Code()
	}
	return 0
}

// VerifC18_Structure: for every text of up to N bytes (regexp.Compile is an
// uninterpreted predicate valid(pattern)): a text that is not /-delimited is
// rejected with a positioned diagnostic; a delimited text is rejected only for
// an invalid pattern; when accepted, Len() is the delimited length and
// Pattern() / the AST value carry exactly the bytes between the delimiters.
func VerifC18_Structure() {
	zzverif.Expect("accepted", "not-delimited", "invalid-pattern")
	n := zzverif.IntRange("len", 0, zzverif.Bound("N", 4, 6))
	text := zzverif.Bytes("text", n)
	delim, end := vDelimited(text)
	r := New("r", text)
	err := r.Check()
	if !delim {
		zzverif.Reach("not-delimited")
		zzverif.Assert(err != nil, "a text that is not /pattern/ is rejected")
		_, isDiag := err.(kit.JSchemaError)
		zzverif.Assert(isDiag, "the rejection is a diagnostic")
		return
	}
	if err != nil {
		zzverif.Reach("invalid-pattern")
		zzverif.Assert(vCode(err) == errs.ErrRegexInvalid, "a /-delimited text is rejected only because its pattern does not compile")
		return
	}
	zzverif.Reach("accepted")
	ln, lerr := r.Len()
	zzverif.Assert(lerr == nil && int(ln) == end+1, "Len() is the delimited length")
	p, perr := r.Pattern()
	zzverif.Assert(perr == nil && p == string(text[1:end]), "Pattern() is exactly the text between the delimiters")
	ast, aerr := r.GetAST()
	zzverif.Assert(aerr == nil && ast.Value == "/"+string(text[1:end])+"/", "the AST value is /pattern/")
}

var vPatterns = []string{
	"a", "abc", "a{2}", "ab{1,2}c", "x{3}y", "a\\.b", "\"", "[a-z]+", "\\d{2,3}", "(a|b)c", "^x$", "a\\/b", "\\\\", "[0-9A-F]{4}", "a.c", "x*", "(?i)ab", "\\w+@\\w+",
	"(", ")", "[a", "a{2,1}", "*", "\\", "(?P<n>", "a**", "[z-a]",
	"^a\\s$", "^\\s+$", "^x\\x20$", "^ ab $", "\\t$", // matches that begin or end with a blank
}

// VerifC18_Concrete: concrete patterns with the real regexp engine (host
// calls): acceptance iff the pattern compiles; the example is matched by the
// pattern; the pattern survives into the AST.
func VerifC18_Concrete() {
	zzverif.Expect("accepted", "rejected")
	i := zzverif.IntRange("pattern", 0, len(vPatterns)-1)
	p := vPatterns[i]
	trailing := []string{"", " ", "\nrest"}[zzverif.IntRange("trailing", 0, 2)]
	text := "/" + p + "/" + trailing
	delim, end := vDelimited([]byte(text))
	r := New("r", text)
	err := r.Check()
	if !delim {
		zzverif.Reach("rejected")
		zzverif.Assert(err != nil, "a text without a closing delimiter is rejected")
		return
	}
	pat := text[1:end]
	re, cerr := regexp.Compile(pat)
	zzverif.Assert((err == nil) == (cerr == nil), "accepted iff the delimited pattern compiles")
	if err != nil {
		zzverif.Reach("rejected")
		return
	}
	zzverif.Reach("accepted")
	got, _ := r.Pattern()
	zzverif.Assert(got == pat, "Pattern() is the delimited pattern")
	ex, eerr := r.Example()
	zzverif.Assert(eerr == nil, "Example() succeeds for an accepted regex schema")
	zzverif.Assert(re.Match(ex), "the example is matched by the pattern")
}

// vHardPatterns compile but the example generator cannot (or can hardly)
// produce a string for them.
var vHardPatterns = []string{
	"[^\\x00-\\x{10FFFF}]", "a[^\\x00-\\x{10FFFF}]b", "[^\\x00-\\x{10FFFF}]*", "$a", "a^", "\\b\\B", "(?:)", "a{0}", "[^\\s\\S]", "\\z\\A", "\\pL", "[[:^ascii:]]", "\\x{10FFFF}", ".{1000}",
}

// VerifC02_RegexExample: Example() of an accepted regex schema returns bytes
// or an error - also for patterns no string can be generated for.
func VerifC02_RegexExample() {
	zzverif.Expect("example", "error")
	zzverif.BoundIsViolation()
	all := append(append([]string{}, vPatterns...), vHardPatterns...)
	p := all[zzverif.IntRange("pattern", 0, len(all)-1)]
	r := New("r", "/"+p+"/")
	if r.Check() != nil {
		return
	}
	again := zzverif.Bool("again")
	ex, err := r.Example()
	if again {
		ex, err = r.Example()
	}
	if err == nil {
		zzverif.Reach("example")
		_ = ex
	} else {
		zzverif.Reach("error")
	}
}

// VerifC10_RegexExamples: the example of a regex schema is the same whether
// its object is the first one the process handles or comes after other
// objects with the same (or another) pattern.
func VerifC10_RegexExamples() {
	zzverif.Expect("compared")
	pats := []string{"[a-z]{3}\\d", "(ab|cd)+x?", "\\w+@\\w+", "a{2}"}
	p := pats[zzverif.IntRange("pattern", 0, len(pats)-1)]
	q := pats[zzverif.IntRange("before", 0, len(pats)-1)]
	ref, rerr := New("ref", "/"+p+"/").Example()
	n := zzverif.IntRange("earlier", 0, 2)
	for i := 0; i < n; i++ {
		_, _ = New("other", "/"+q+"/").Example()
	}
	got, gerr := New("late", "/"+p+"/").Example()
	zzverif.Reach("compared")
	zzverif.Assert((rerr == nil) == (gerr == nil) && string(ref) == string(got), "Example() of a regex schema does not depend on the objects handled before")
}
