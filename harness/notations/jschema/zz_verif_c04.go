package jschema

import (
	schema "github.com/jsightapi/jsight-schema-core"
	"github.com/jsightapi/jsight-schema-core/zzverif"
)

// ---- schema model: what the source says ----

type mRule struct {
	name string
	text string // how the value is written in the annotation
	want schema.RuleASTNode
}

type mNode struct {
	kind        string // token type expected in the AST
	key         string
	shortcut    bool
	valText     string // literal as written
	valWant     string // AST Value
	rules       []mRule
	note        string
	multi       bool   // annotation written as /* */ instead of //
	userComment string // ` # ...` written after the annotation (part of the text, not of the meaning)
	children    []mNode
}

func mNum(tok, v string) schema.RuleASTNode {
	return schema.RuleASTNode{TokenType: tok, Value: v, Source: schema.RuleASTNodeSourceManual}
}

func mAnnotation(n mNode) string {
	if len(n.rules) == 0 && n.note == "" {
		return ""
	}
	body := ""
	if len(n.rules) > 0 {
		body = "{"
		for i, r := range n.rules {
			if i > 0 {
				body += ", "
			}
			body += r.name + ": " + r.text
		}
		body += "}"
	}
	if n.note != "" {
		if body != "" {
			body += " - "
		}
		body += n.note
	}
	if n.multi {
		return " /* " + body + " */"
	}
	return " // " + body
}

// mPrint prints a scalar or a one-level container.
func mPrint(n mNode) string {
	switch n.kind {
	case schema.TokenTypeObject, schema.TokenTypeArray:
		open, close := "{", "}"
		if n.kind == schema.TokenTypeArray {
			open, close = "[", "]"
		}
		s := open + mAnnotation(n) + "\n"
		for i, c := range n.children {
			s += "  "
			if n.kind == schema.TokenTypeObject {
				if c.shortcut {
					s += c.key + ": "
				} else {
					s += `"` + c.key + `": `
				}
			}
			s += c.valText
			if i != len(n.children)-1 {
				s += ","
			}
			s += mAnnotation(c) + "\n"
		}
		return s + close
	}
	return n.valText + mAnnotation(n)
}

func mSameRuleNode(a, b schema.RuleASTNode) bool { return vSameRule(a, b) }

// mCheck walks the real AST against the model.
func mCheck(ast schema.ASTNode, n mNode) {
	zzverif.Assert(ast.TokenType == n.kind, "the node has the element's JSON kind")
	zzverif.Assert(ast.Key == n.key && ast.IsKeyShortcut == n.shortcut, "the node has the element's key and shortcut flag")
	zzverif.Assert(ast.Value == n.valWant, "the node has the decoded scalar value / reference text")
	zzverif.Assert(ast.Comment == n.note, "the node carries the annotation's note")
	// rules the loader derives from a type shortcut (`@t` -> type, `@a | @b` -> or)
	// are labelled RuleASTNodeSourceGenerated; the rules WRITTEN are the manual ones
	var got []vRuleKV
	for _, kv := range vRuleList(ast.Rules) {
		if kv.v.Source != schema.RuleASTNodeSourceGenerated {
			got = append(got, kv)
		}
	}
	zzverif.Assert(len(got) == len(n.rules), "exactly the rules written in the annotation")
	if len(got) == len(n.rules) {
		for i, r := range n.rules {
			zzverif.Assert(got[i].k == r.name, "rule names in source order")
			zzverif.Assert(mSameRuleNode(got[i].v, r.want), "rule values as written (including nested lists)")
		}
	}
	zzverif.Assert(len(ast.Children) == len(n.children), "one node per element")
	if len(ast.Children) == len(n.children) {
		for i := range n.children {
			mCheck(ast.Children[i], n.children[i])
		}
	}
}

// mConcreteNotes: notes are taken from a fixed list (harnesses whose subject
// runs host code - regular expressions - over the note).
var mConcreteNotes bool

func mNote(tag string) string {
	if mConcreteNotes {
		return []string{"", "note", "a  b: c."}[zzverif.IntRange(tag+"note", 0, 2)]
	}
	n := zzverif.IntRange(tag+"noteLen", 0, 2)
	b := make([]byte, n)
	for i := range b {
		b[i] = zzverif.OneOf(tag+"n", "ab1:.\x0b\x0c\xc2\xa0") // incl. bytes that are white space to unicode.IsSpace but not blanks of the language
	}
	return string(b)
}

// mIntRules: 0-3 rules for an integer example 5, in every order.
func mIntRules(tag string) []mRule {
	a := zzverif.OneOf(tag+"min", "012345")
	b := zzverif.OneOf(tag+"max", "56789")
	// rule values are reported AS WRITTEN: also non-canonical spellings
	minText := string([]byte{a}) + []string{"", ".0", ".50", ".00"}[zzverif.IntRange(tag+"minForm", 0, zzverif.Bound("minForms", 2, 3))]
	maxText := string([]byte{b}) + []string{"", ".0", ".250"}[zzverif.IntRange(tag+"maxForm", 0, zzverif.Bound("maxForms", 0, 2))]
	pool := []mRule{
		{"min", minText, mNum(schema.TokenTypeNumber, minText)},
		{"max", maxText, mNum(schema.TokenTypeNumber, maxText)},
		{"nullable", "false", mNum(schema.TokenTypeBoolean, "false")},
	}
	order := [][]int{{}, {0}, {1}, {2}, {0, 1}, {1, 0}, {0, 2}, {2, 1}, {0, 1, 2}, {2, 1, 0}, {1, 2, 0}}
	var out []mRule
	for _, i := range order[zzverif.IntRange(tag+"order", 0, len(order)-1)] {
		out = append(out, pool[i])
	}
	if zzverif.Bool(tag+"quoted") && len(out) > 0 {
		out[0].name = `"` + out[0].name + `"`
	}
	return out
}

func mUnquoteNames(rs []mRule) []mRule {
	out := append([]mRule{}, rs...)
	for i := range out {
		if len(out[i].name) > 0 && out[i].name[0] == '"' {
			out[i].name = out[i].name[1 : len(out[i].name)-1]
		}
	}
	return out
}

// VerifC04_Scalars: an integer with 0-3 rules in every order (one optionally
// quoted), rules only / note only / rules + note, inline or multi-line.
func VerifC04_Scalars() {
	zzverif.Expect("checked")
	n := mNode{kind: schema.TokenTypeNumber, valText: "5", valWant: "5"}
	n.rules = mIntRules("r.")
	n.note = mNote("n.")
	n.multi = zzverif.Bool("multi")
	text := mPrint(n)
	s := New("s", text)
	zzverif.Assume(s.Check() == nil)
	ast, err := s.GetAST()
	zzverif.Assert(err == nil, "GetAST() succeeds on an accepted schema")
	n.rules = mUnquoteNames(n.rules)
	mCheck(ast, n)
	zzverif.Reach("checked")
}

// VerifC04_Containers: object / array with annotated members of every kind:
// plain key, key shortcut, reference value, type choice, string, nested note.
func VerifC04_Containers() {
	zzverif.Expect("checked")
	d := string([]byte{zzverif.Digit("d")})
	sc := string([]byte{zzverif.OneOf("s", "ab .")})
	isObj := zzverif.Bool("object")
	root := mNode{kind: schema.TokenTypeArray}
	if isObj {
		root.kind = schema.TokenTypeObject
	}
	root.note = mNote("root.")
	mk := func(i int, c mNode) mNode {
		if isObj {
			c.key = string([]byte{byte('k' + i)})
		}
		return c
	}
	root.children = append(root.children, mk(0, mNode{kind: schema.TokenTypeNumber, valText: d, valWant: d, rules: mIntRulesFor(d), note: mNote("c0.")}))
	root.children = append(root.children, mk(1, mNode{kind: schema.TokenTypeString, valText: `"` + sc + `"`, valWant: sc,
		rules: []mRule{{"maxLength", "3", mNum(schema.TokenTypeNumber, "3")}}, multi: true, note: mNote("c1.")}))
	root.children = append(root.children, mk(2, mNode{kind: schema.TokenTypeShortcut, valText: "@t", valWant: "@t", note: mNote("c2.")}))
	root.children = append(root.children, mk(3, mNode{kind: schema.TokenTypeShortcut, valText: "@t | @u", valWant: "@t | @u"}))
	if isObj {
		root.children = append(root.children, mNode{kind: schema.TokenTypeNumber, key: "@t", shortcut: true, valText: "1", valWant: "1"})
		// a QUOTED key that merely looks like a type name is an ordinary key
		root.children = append(root.children, mNode{kind: schema.TokenTypeNumber, key: "@u", valText: "2", valWant: "2"})
	}
	text := mPrint(root)
	s := New("s", text)
	_ = s.AddType("@t", New("@t", `"x"`))
	_ = s.AddType("@u", New("@u", `"y"`))
	zzverif.Assume(s.Check() == nil)
	ast, err := s.GetAST()
	zzverif.Assert(err == nil, "GetAST() succeeds on an accepted schema")
	// the AST spells a choice without the blanks around the bar? compare as written
	mCheck(ast, root)
	zzverif.Reach("checked")
}

func mIntRulesFor(d string) []mRule {
	return []mRule{{"min", "0", mNum(schema.TokenTypeNumber, "0")}, {"max", "9", mNum(schema.TokenTypeNumber, "9")}}
}

// VerifC04_NestedLists: `or` with rule sets and names, `enum` lists, large
// integer rule values.
func VerifC04_NestedLists() {
	zzverif.Expect("checked", "checked-0", "checked-1", "checked-2", "checked-3", "checked-4", "checked-5", "checked-6", "checked-7", "checked-8", "checked-9")
	a := string([]byte{zzverif.OneOf("a", "01234")})
	// concretised (forked), not symbolic: a symbolic digit inside a 19-20 digit
	// value puts a chain of 64-bit multiplications (ParseUint) into every query
	a9 := string([]byte{byte('0' + zzverif.IntRange("a9", 0, 9))})
	var n mNode
	family := zzverif.IntRange("family", 0, 9)
	switch family {
	case 0:
		n = mNode{kind: schema.TokenTypeNumber, valText: "5", valWant: "5"}
		set := schema.RuleASTNode{TokenType: schema.TokenTypeObject, Source: schema.RuleASTNodeSourceManual,
			Properties: schema.NewRuleASTNodes(map[string]schema.RuleASTNode{
				"type": mNum(schema.TokenTypeString, "integer"), "min": mNum(schema.TokenTypeNumber, a)}, []string{"type", "min"})}
		n.rules = []mRule{{"or", `[{type: "integer", min: ` + a + `}, "string"]`,
			schema.RuleASTNode{TokenType: schema.TokenTypeArray, Source: schema.RuleASTNodeSourceManual,
				Items: []schema.RuleASTNode{set, mNum(schema.TokenTypeString, "string")}}}}
	case 1:
		n = mNode{kind: schema.TokenTypeNumber, valText: a, valWant: a}
		n.rules = []mRule{{"enum", `[` + a + `, "x", true, null, 7.5]`,
			schema.RuleASTNode{TokenType: schema.TokenTypeArray, Source: schema.RuleASTNodeSourceManual,
				Items: []schema.RuleASTNode{mNum(schema.TokenTypeNumber, a), mNum(schema.TokenTypeString, "x"),
					mNum(schema.TokenTypeBoolean, "true"), mNum(schema.TokenTypeNull, "null"), mNum(schema.TokenTypeNumber, "7.5")}}}}
	case 2:
		big := []string{"18446744073709551615", "9999999999999999999", "1000000000000000000" + a9, "12345678901234567" + a9 + "0", "1844674407370955161" + a9, "1844674407370955162" + a9}[zzverif.IntRange("big", 0, 5)]
		n = mNode{kind: schema.TokenTypeString, valText: `"abc"`, valWant: "abc"}
		n.rules = []mRule{{"maxLength", big, mNum(schema.TokenTypeNumber, big)}}
	case 9: // \u escapes with lower- and upper-case hex digits in a key, a value and an enum item are reported decoded
		hi := zzverif.IntRange("hex", 0, 4)
		hex := []string{"\\u00ef", "\\u00EF", "\\u00ff", "\\u00aB", "\\u0041"}[hi]
		dec := []string{"ï", "ï", "ÿ", "«", "A"}[hi]
		n = mNode{kind: schema.TokenTypeObject}
		n.children = []mNode{{kind: schema.TokenTypeString, key: "k", valText: `"na` + hex + `ve"`, valWant: "na" + dec + "ve",
			rules: []mRule{{"enum", `["na` + hex + `ve", "` + hex + `"]`, schema.RuleASTNode{TokenType: schema.TokenTypeArray, Source: schema.RuleASTNodeSourceManual,
				Items: []schema.RuleASTNode{mNum(schema.TokenTypeString, "na"+dec+"ve"), mNum(schema.TokenTypeString, dec)}}}}}}
	case 8: // a rule set inside `or` whose FIRST rule is an enum list: the written order is kept
		n = mNode{kind: schema.TokenTypeNumber, valText: "2", valWant: "2"}
		list := schema.RuleASTNode{TokenType: schema.TokenTypeArray, Source: schema.RuleASTNodeSourceManual,
			Items: []schema.RuleASTNode{mNum(schema.TokenTypeNumber, "1"), mNum(schema.TokenTypeNumber, "2"), mNum(schema.TokenTypeNumber, a)}}
		set := schema.RuleASTNode{TokenType: schema.TokenTypeObject, Source: schema.RuleASTNodeSourceManual,
			Properties: schema.NewRuleASTNodes(map[string]schema.RuleASTNode{
				"enum": list, "type": mNum(schema.TokenTypeString, "enum")}, []string{"enum", "type"})}
		n.rules = []mRule{{"or", `[{enum: [1, 2, ` + a + `], type: "enum"}, "string"]`,
			schema.RuleASTNode{TokenType: schema.TokenTypeArray, Source: schema.RuleASTNodeSourceManual,
				Items: []schema.RuleASTNode{set, mNum(schema.TokenTypeString, "string")}}}}
	case 4: // the remaining scalar rules of a number, in two orders
		n = mNode{kind: schema.TokenTypeNumber, valText: "1.25", valWant: "1.25"}
		n.rules = []mRule{{"type", `"decimal"`, mNum(schema.TokenTypeString, "decimal")}, {"precision", "2", mNum(schema.TokenTypeNumber, "2")},
			{"min", "1", mNum(schema.TokenTypeNumber, "1")}, {"exclusiveMinimum", "true", mNum(schema.TokenTypeBoolean, "true")},
			{"max", a + "0.5", mNum(schema.TokenTypeNumber, a+"0.5")}, {"exclusiveMaximum", "false", mNum(schema.TokenTypeBoolean, "false")},
			{"const", "false", mNum(schema.TokenTypeBoolean, "false")}}
		if zzverif.Bool("reversed") {
			for i, j := 0, len(n.rules)-1; i < j; i, j = i+1, j-1 {
				n.rules[i], n.rules[j] = n.rules[j], n.rules[i]
			}
		}
	case 5: // string rules; a rule value that is a string with escapes is reported decoded
		n = mNode{kind: schema.TokenTypeString, valText: `"a.b"`, valWant: "a.b"}
		n.rules = []mRule{{"minLength", a, mNum(schema.TokenTypeNumber, a)}, {"regex", `"^a\\.b\u0024"`, mNum(schema.TokenTypeString, `^a\.b$`)},
			{"nullable", "true", mNum(schema.TokenTypeBoolean, "true")}}
	case 6: // rules of an object
		n = mNode{kind: schema.TokenTypeObject}
		n.rules = []mRule{{"additionalProperties", []string{"true", "false", `"integer"`, `"any"`}[zzverif.IntRange("ap", 0, 3)], schema.RuleASTNode{}}, {"nullable", "true", mNum(schema.TokenTypeBoolean, "true")}}
		ap := n.rules[0].text
		if ap[0] == '"' {
			n.rules[0].want = mNum(schema.TokenTypeString, ap[1:len(ap)-1])
		} else {
			n.rules[0].want = mNum(schema.TokenTypeBoolean, ap)
		}
		n.children = []mNode{{kind: schema.TokenTypeNumber, key: "k", valText: a, valWant: a}}
	case 7: // a format type with const
		n = mNode{kind: schema.TokenTypeString, valText: `"2021-01-08"`, valWant: "2021-01-08"}
		n.rules = []mRule{{"type", `"date"`, mNum(schema.TokenTypeString, "date")}, {"const", "true", mNum(schema.TokenTypeBoolean, "true")}}
	default:
		n = mNode{kind: schema.TokenTypeArray, note: mNote("n.")}
		n.rules = []mRule{{"maxItems", "1844674407370955161" + a9, mNum(schema.TokenTypeNumber, "1844674407370955161"+a9)}}
		n.children = []mNode{{kind: schema.TokenTypeNumber, valText: "1", valWant: "1"}}
	}
	n.note = mNote("t.")
	text := mPrint(n)
	s := New("s", text)
	zzverif.Assume(s.Check() == nil)
	ast, err := s.GetAST()
	zzverif.Assert(err == nil, "GetAST() succeeds on an accepted schema")
	mCheck(ast, n)
	zzverif.Reach("checked-" + string([]byte{byte('0' + family)}))
	zzverif.Reach("checked")
}
