package jschema

import (
	"github.com/jsightapi/jsight-schema-core/zzverif"
)

// ssSym1: a one-letter string, or the empty string (a value like any other).
func ssSym1(name string) string {
	if zzverif.Bool(name + ".empty") {
		return ""
	}
	return string([]byte{zzverif.OneOf(name, "abcdef")})
}

// VerifC19_StringSet: Add from an arbitrary valid state of up to N distinct
// values: Len, Has and Data() equal those of an insertion-ordered set.
func VerifC19_StringSet() {
	zzverif.Expect("add-present", "add-absent")
	n := zzverif.IntRange("n", 0, zzverif.Bound("N", 3, 5))
	var ref []string
	find := func(k string) int {
		for i, x := range ref {
			if x == k {
				return i
			}
		}
		return -1
	}
	for i := 0; i < n; i++ {
		k := ssSym1("key")
		zzverif.Assume(find(k) < 0)
		ref = append(ref, k)
	}
	s := NewStringSet(append([]string{}, ref...)...)
	k := ssSym1("k")
	if find(k) >= 0 {
		zzverif.Reach("add-present")
	} else {
		zzverif.Reach("add-absent")
		ref = append(ref, k)
	}
	s.Add(k)
	q := ssSym1("q")
	zzverif.Assert(s.Has(q) == (find(q) >= 0), "Has reports membership")
	zzverif.Assert(s.Len() == len(ref), "Len is the number of distinct values")
	d := s.Data()
	same := len(d) == len(ref)
	if same {
		for i := range d {
			if d[i] != ref[i] {
				same = false
			}
		}
	}
	zzverif.Assert(same, "Data() lists the values once each, in insertion order")
}
