package jschema

import (
	"github.com/jsightapi/jsight-schema-core/rules/enum"
	"github.com/jsightapi/jsight-schema-core/zzverif"
)

func vEnumScalar(tag string) []byte {
	switch zzverif.IntRange(tag+"kind", 0, 4) {
	case 0:
		if zzverif.Bool(tag + "frac") {
			return []byte{zzverif.Digit(tag + "d"), '.', zzverif.Digit(tag + "f")}
		}
		return []byte{zzverif.Digit(tag + "d")}
	case 1:
		return []byte{'"', zzverif.OneOf(tag+"s", "ab1."), zzverif.OneOf(tag+"s", "ab1."), '"'}
	case 2:
		return []byte{'"', '\\', zzverif.OneOf(tag+"e", "\"\\/n"), '"'}
	case 3:
		return []byte("true")
	default:
		return []byte{'"', zzverif.OneOf(tag+"s", "ab1./"), '"'}
	}
}

func vSameBytes(a, b []byte) bool { return string(a) == string(b) }

// VerifC17_RuleVersusInline: `X // {enum: @r}` with the rule file [V1, V2]
// (plain, with inline notes, with a multi-line note) gets the same verdict
// and the same example as `X // {enum: [V1, V2]}`, for every X, V1, V2 from
// the scalar holes. Two scanners and two duplicate classifiers are checked
// against each other.
func VerifC17_RuleVersusInline() {
	zzverif.Expect("both-accept", "both-reject")
	x := vEnumScalar("x.")
	v1 := vEnumScalar("1.")
	v2 := vEnumScalar("2.")
	list := append([]byte{'['}, v1...)
	list = append(list, ',', ' ')
	list = append(list, v2...)
	list = append(list, ']')
	var ruleText []byte
	switch zzverif.IntRange("layout", 0, 5) {
	case 0:
		ruleText = list
	case 3: // EMPTY stand-alone block annotations after `[`, between the values and before `]`
		ruleText = vJoin([]byte("[\n  /**/\n  "), v1, []byte(",\n  /* */\n  "), v2, []byte("\n  /**/\n]"))
	case 4: // stand-alone comment lines with text
		ruleText = vJoin([]byte("[\n  // the first\n  "), v1, []byte(",\n  /* the\n second */\n  "), v2, []byte("\n]"))
	case 5: // empty inline annotations
		ruleText = vJoin([]byte("[ //\n  "), v1, []byte(", //\n  "), v2, []byte(" //\n]"))
	case 1: // one value per line with inline notes
		ruleText = append([]byte("[\n  "), v1...)
		ruleText = append(ruleText, []byte(", // first\n  ")...)
		ruleText = append(ruleText, v2...)
		ruleText = append(ruleText, []byte(" // second\n]")...)
	default: // multi-line note
		ruleText = append([]byte("[\n"), v1...)
		ruleText = append(ruleText, []byte(", /* a\n note */\n")...)
		ruleText = append(ruleText, v2...)
		ruleText = append(ruleText, []byte("\n]")...)
	}
	inlineText := append(append([]byte{}, x...), []byte(" // {enum: ")...)
	inlineText = append(inlineText, list...)
	inlineText = append(inlineText, '}')
	refText := append(append([]byte{}, x...), []byte(" // {enum: @r}")...)

	inl := New("inline", inlineText)
	errInline := inl.Check()

	ref := New("ref", refText)
	errRule := ref.AddRule("@r", enum.New("r", ruleText))
	var errRef error
	if errRule == nil {
		errRef = ref.Check()
	} else {
		errRef = errRule
	}
	zzverif.Assert((errInline == nil) == (errRef == nil), "enum: @name and the inline list get the same verdict")
	if errInline != nil {
		zzverif.Reach("both-reject")
		return
	}
	zzverif.Reach("both-accept")
	e1, x1 := inl.Example()
	e2, x2 := ref.Example()
	zzverif.Assert(x1 == nil && x2 == nil, "Example() succeeds on both")
	zzverif.Assert(vSameBytes(e1, e2), "enum: @name and the inline list give the same example")
}

// VerifC17_RuleReuse: one rule file (with a comment line between its values)
// referenced from TWO properties - and read through Values() before and after:
// the second reference sees the same list as the first, the verdict equals the
// inline spelling, and using the rule does not change what Values() reports.
func VerifC17_RuleReuse() {
	zzverif.Expect("both-accept", "both-reject")
	v1 := []byte{'"', zzverif.OneOf("1", "abc"), '"'}
	v2 := []byte{'"', zzverif.OneOf("2", "abc"), '"'}
	v3 := []byte{zzverif.Digit("3")}
	zzverif.Assume(string(v1) != string(v2))
	x := []byte{'"', zzverif.OneOf("x", "abc"), '"'}
	y := vEnumScalar("y.")
	ruleText := vJoin([]byte("[\n  "), v1, []byte(",\n  // a comment line\n  "), v2, []byte(", // note\n  /* block\n comment */\n  "), v3, []byte("\n]"))
	list := vJoin([]byte("["), v1, []byte(", "), v2, []byte(", "), v3, []byte("]"))
	rule := enum.New("r", ruleText)
	before, berr := rule.Values()
	zzverif.Assert(berr == nil, "the rule file is a valid enum rule")
	var snapshot []string
	for _, v := range before {
		snapshot = append(snapshot, v.Value.String()+"|"+string(v.Type)+"|"+v.Comment)
	}
	refText := vJoin([]byte("{\n  \"a\": "), x, []byte(", // {enum: @r}\n  \"b\": "), y, []byte(" // {enum: @r}\n}"))
	inlText := vJoin([]byte("{\n  \"a\": "), x, []byte(", // {enum: "), list, []byte("}\n  \"b\": "), y, []byte(" // {enum: "), list, []byte("}\n}"))
	ref := New("ref", refText)
	rerr := ref.AddRule("@r", rule)
	if rerr == nil {
		rerr = ref.Check()
	}
	ierr := New("inline", inlText).Check()
	zzverif.Assert((rerr == nil) == (ierr == nil), "two references to one rule get the verdict of the inline lists")
	if ierr == nil {
		zzverif.Reach("both-accept")
	} else {
		zzverif.Reach("both-reject")
	}
	after, aerr := rule.Values()
	zzverif.Assert(aerr == nil && len(after) == len(snapshot), "Values() is unchanged by using the rule")
	if len(after) == len(snapshot) {
		for i, v := range after {
			zzverif.Assert(v.Value.String()+"|"+string(v.Type)+"|"+v.Comment == snapshot[i], "Values() entries are unchanged by using the rule")
		}
	}
}
