package jschema

import (
	"github.com/jsightapi/jsight-schema-core/errs"
	"github.com/jsightapi/jsight-schema-core/kit"
	"github.com/jsightapi/jsight-schema-core/zzverif"
)

// vRefTemplate returns a root schema text referring to @x (and @y), the body
// every registered type gets for that template (so that a missing type is the
// only possible reason for rejection), and the names in text order.
func vRefTemplate(x, y byte) (root string, body string, names []string) {
	X := "@" + string([]byte{x})
	Y := "@" + string([]byte{y})
	switch zzverif.IntRange("position", 0, 17) {
	case 0:
		return `{"k": ` + X + `}`, `1`, []string{X}
	case 1:
		return `{"k": ` + X + ` | ` + Y + `}`, `1`, []string{X, Y}
	case 2:
		return `{` + X + `: 1}`, `"s"`, []string{X}
	case 3:
		return `1 // {type: "` + X + `"}`, `1`, []string{X}
	case 4:
		return `1 // {or: ["` + X + `", "integer"]}`, `1`, []string{X}
	case 5:
		zzverif.Assume(x != y) // the same rule set twice is refused for its own reason
		return `1 // {or: [{type: "` + X + `"}, {type: "` + Y + `"}]}`, `1`, []string{X, Y}
	case 6:
		return "{ // {allOf: \"" + X + "\"}\n}", `{"v": 1}`, []string{X}
	case 7:
		return `{} // {additionalProperties: "` + X + `"}`, `{"v": 1}`, []string{X}
	case 8:
		return `[` + X + `, {"k": ` + Y + `}, ` + X + `]`, `1`, []string{X, Y, X}
	case 9:
		return "{ // {allOf: [\"" + X + "\", \"" + Y + "\"]}\n  \"own\": " + X + "\n}", `{}`, []string{X, Y, X}
	case 10: // a QUOTED key that looks like a type name is a plain key; its value is scanned
		return `{"` + X + `": {"k": ` + Y + `}, "z": 1}`, `1`, []string{Y}
	case 11: // allOf on an own member below another allOf object
		return "{ // {allOf: \"" + X + "\"}\n  \"inner\": { // {allOf: \"" + Y + "\"}\n    \"deep\": 1\n  }\n}", `{}`, []string{X, Y}
	case 13: // an alternative with further rules next to the type name is kept as an unnamed type
		zzverif.Assume(x != y) // the same type twice is refused for its own reason
		return `1 // {or: [{type: "` + X + `", nullable: true}, {type: "` + Y + `"}]}`, `1`, []string{X, Y}
	case 14:
		zzverif.Assume(x != y)
		return `1 // {or: [{type: "integer", min: 0}, {type: "` + X + `", nullable: false}, "` + Y + `"]}`, `1`, []string{X, Y}
	case 15: // a key shortcut whose name was already seen, with a reference below it
		return `{"id": ` + X + `, ` + X + `: ` + Y + `}`, `"s"`, []string{X, Y}
	case 16: // every reference of the list sits inside a rule set with further rules
		return `1 // {or: [{type: "` + X + `", nullable: true}, {type: "integer", min: 0}]}`, `1`, []string{X}
	case 17: // an object with allOf that is an ITEM of an array
		return "[\n  { // {allOf: \"" + X + "\"}\n    \"own\": " + Y + "\n  }\n]", `{"v": 1}`, []string{X, Y}
	default: // rule sets (unnamed types) in the root and in the registered types, all in files of the same name
		return `1 // {or: [{type: "` + X + `"}, {type: "integer", min: 0}]}`, `1 // {or: [{type: "integer"}, {type: "string"}]}`, []string{X}
	}
}

func vDistinct(names []string) []string {
	var out []string
	for _, n := range names {
		dup := false
		for _, o := range out {
			if o == n {
				dup = true
			}
		}
		if !dup {
			out = append(out, n)
		}
	}
	return out
}

func vSameStrings(a, b []string) bool {
	if len(a) != len(b) {
		return false
	}
	for i := range a {
		if a[i] != b[i] {
			return false
		}
	}
	return true
}

func vContains(h, n string) bool {
	for k := 0; k+len(n) <= len(h); k++ {
		if h[k:k+len(n)] == n {
			return true
		}
	}
	return false
}

// VerifC05_References: for every reference position, every choice of target
// names from {@a,@b,@c} (symbolic letters - the collector's and the type
// table's lookups are decided by the solver) and every subset of registered
// types: UsedUserTypes() lists exactly the distinct names in text order, and
// Check() reports 'type not found' naming a missing type iff a referenced
// type was not registered.
func VerifC05_References() {
	zzverif.Expect("all-registered", "some-missing")
	x := zzverif.OneOf("x", "abc")
	y := zzverif.OneOf("y", "abc")
	rootText, body, names := vRefTemplate(x, y)
	want := vDistinct(names)
	reg := map[string]bool{"@a": zzverif.Bool("reg.a"), "@b": zzverif.Bool("reg.b"), "@c": zzverif.Bool("reg.c")}
	// every schema lives in a file of the same name (as when all come from one document)
	root := New("doc", rootText)
	for _, n := range []string{"@a", "@b", "@c"} {
		if reg[n] {
			zzverif.Assert(root.AddType(n, New("doc", body)) == nil, "a valid type can be registered")
		}
	}
	used, uerr := New("u", rootText).UsedUserTypes()
	zzverif.Assert(uerr == nil, "UsedUserTypes() succeeds on a well-formed schema")
	zzverif.Assert(vSameStrings(used, want), "UsedUserTypes() lists exactly the names the text refers to, without duplicates")
	used2, _ := root.UsedUserTypes()
	zzverif.Assert(vSameStrings(used2, want), "UsedUserTypes() does not depend on which types were registered")
	var missing []string
	for _, n := range want {
		if !reg[n] {
			missing = append(missing, n)
		}
	}
	err := root.Check()
	// ... nor on whether the schema was compiled before the first call
	late := New("doc", rootText)
	for _, n := range []string{"@a", "@b", "@c"} {
		if reg[n] {
			_ = late.AddType(n, New("doc", body))
		}
	}
	_ = late.Check()
	used3, _ := late.UsedUserTypes()
	zzverif.Assert(vSameStrings(used3, want), "UsedUserTypes() does not depend on an earlier Check()")
	if len(missing) == 0 {
		zzverif.Reach("all-registered")
		zzverif.Assert(err == nil, "with every referenced type registered the schema is accepted")
		return
	}
	zzverif.Reach("some-missing")
	zzverif.Assert(err != nil, "a missing referenced type is reported")
	if err == nil {
		return
	}
	je, isJ := err.(kit.JSchemaError)
	zzverif.Assert(isJ && je.Code() == errs.ErrUserTypeNotFound, "the report is the 'type not found' diagnostic")
	if isJ && !zzverif.Opaque(je.Message()) {
		named := false
		for _, n := range missing {
			if vContains(je.Message(), n) {
				named = true
			}
		}
		zzverif.Assert(named, "the diagnostic names a missing type")
	}
}

// VerifC05_UnusedType: registering an additional valid type that nothing
// refers to never changes any result.
func VerifC05_UnusedType() {
	zzverif.Expect("accepted", "rejected")
	x := zzverif.OneOf("x", "ab")
	y := zzverif.OneOf("y", "ab")
	rootText, body, _ := vRefTemplate(x, y)
	regA, regB := zzverif.Bool("reg.a"), zzverif.Bool("reg.b")
	extraBodies := []string{`{"unused": "type"}`, `1 // {or: [{type: "integer"}, {type: "string"}]}`, `1 // {or: [{type: "string"}, {type: "integer", min: 0}]}`, `"x" // {or: [{type: "string"}, {type: "integer", min: 0}]}`}
	extraKind := zzverif.IntRange("extra", 0, len(extraBodies)-1)
	build := func(extra bool) *JSchema {
		r := New("doc", rootText)
		if regA {
			_ = r.AddType("@a", New("doc", body))
		}
		if extra {
			// same file name, a rule set at the same offset as the root's
			_ = r.AddType("@zz", New("doc", extraBodies[extraKind]))
		}
		if regB {
			_ = r.AddType("@b", New("doc", body))
		}
		return r
	}
	r1, r2 := build(false), build(true)
	e1, e2 := r1.Check(), r2.Check()
	zzverif.Assert((e1 == nil) == (e2 == nil) && vErrCode(e1) == vErrCode(e2), "same verdict and code")
	u1, _ := r1.UsedUserTypes()
	u2, _ := r2.UsedUserTypes()
	zzverif.Assert(vSameStrings(u1, u2), "same used-type list")
	if e1 != nil {
		zzverif.Reach("rejected")
		return
	}
	zzverif.Reach("accepted")
	x1, xe1 := r1.Example()
	x2, xe2 := r2.Example()
	zzverif.Assert((xe1 == nil) == (xe2 == nil) && string(x1) == string(x2), "same example")
	a1, _ := r1.GetAST()
	a2, _ := r2.GetAST()
	zzverif.Assert(vSameAST(a1, a2), "same AST")
}
