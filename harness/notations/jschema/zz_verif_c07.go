package jschema

import (
	"github.com/jsightapi/jsight-schema-core/notations/jschema/ischema"
	"github.com/jsightapi/jsight-schema-core/notations/jschema/ischema/constraint"
	"github.com/jsightapi/jsight-schema-core/zzverif"
	"github.com/jsightapi/jsight-schema-core/zzverif/zzjson"
)

type aProp struct {
	key      string
	optional bool
	from     string // "" = own
}

// aObject prints an object with the given own properties and rule text.
func aObject(rules string, props []aProp) string {
	s := "{"
	if rules != "" {
		s += " // {" + rules + "}"
	}
	s += "\n"
	for i, p := range props {
		s += `  "` + p.key + `": 1`
		if i != len(props)-1 {
			s += ","
		}
		if p.optional {
			s += " // {optional: true}"
		}
		s += "\n"
	}
	return s + "}"
}

func aKey(tag string) string { return string([]byte{zzverif.OneOf(tag, "abc")}) }

func aProps(tag string, n int) []aProp {
	var ps []aProp
	for i := 0; i < n; i++ {
		k := aKey(tag + "k")
		for _, q := range ps {
			zzverif.Assume(q.key != k) // keys written in ONE object are distinct (that is a different rule)
		}
		ps = append(ps, aProp{key: k, optional: zzverif.Bool(tag + "opt")})
	}
	return ps
}

func aInherit(ps []aProp, from string) []aProp {
	var out []aProp
	for _, p := range ps {
		out = append(out, aProp{p.key, p.optional, from})
	}
	return out
}

func aHasDuplicate(ps []aProp) bool {
	for i := range ps {
		for j := 0; j < i; j++ {
			if ps[i].key == ps[j].key {
				return true
			}
		}
	}
	return false
}

// aCheck compares the compiled root with the expected merged property list.
func aCheck(root *JSchema, want []aProp, refuse bool) {
	err := root.Check()
	zzverif.Assert((err != nil) == refuse, "inheritance is merged iff no refusal reason applies")
	if err != nil {
		zzverif.Reach("refused")
		return
	}
	zzverif.Reach("merged")
	obj, isObj := root.Inner.RootNode().(*ischema.ObjectNode)
	zzverif.Assert(isObj && len(obj.Children()) == len(want), "the compiled object has own + inherited properties")
	if isObj && len(obj.Children()) == len(want) {
		for i, p := range want {
			zzverif.Assert(obj.Key(i).Key == p.key, "own properties first, then inherited ones, in order")
			c := obj.Children()[i]
			zzverif.Assert(c.InheritedFrom() == p.from, "each inherited property is marked with the type it came from")
			zzverif.Assert(ischema.IsOptionalNode(c) == p.optional, "the optional status is kept")
			// the same property is what a lookup BY NAME finds (validators look members up by key)
			byName, found := obj.Child(p.key, false)
			zzverif.Assert(found && byName == c && int(obj.Key(i).Index) == i, "a property looked up by name is the merged property of that name")
		}
		// the AST of the COMPILED object pairs every key with its own value and origin
		if an, aerr := obj.ASTNode(); aerr == nil && len(an.Children) == len(want) {
			for i, p := range want {
				zzverif.Assert(an.Children[i].Key == p.key && an.Children[i].InheritedFrom == p.from, "the compiled object's AST lists own + inherited properties with their origin")
			}
		} else {
			zzverif.Assert(false, "the compiled object has an AST with own + inherited properties")
		}
	}
	ex, xerr := root.Example()
	zzverif.Assert(xerr == nil, "Example() succeeds")
	evs, ok := zzjson.Decode(ex)
	zzverif.Assert(ok, "Example() is JSON")
	var keys []string
	depth := 0
	for _, e := range evs {
		switch e.Kind {
		case '{', '[':
			depth++
		case '}', ']':
			depth--
		case 'k':
			if depth == 1 {
				keys = append(keys, e.Val)
			}
		}
	}
	same := len(keys) == len(want)
	if same {
		for i := range keys {
			if keys[i] != want[i].key {
				same = false
			}
		}
	}
	zzverif.Assert(same, "Example() shows exactly the merged key set in order")
}

// aShape builds one inheritance project: single parent, chain, two parents,
// diamond, cycle, non-object parent, missing parent - property keys are
// symbolic so that overlaps are decided by the solver.
func aShape() (root *JSchema, want []aProp, refuse bool) {
	shape := zzverif.IntRange("shape", 0, 6)
	own := aProps("own.", zzverif.IntRange("ownN", 0, 1))
	switch shape {
	case 0: // single parent
		pp := aProps("p.", zzverif.IntRange("pN", 1, 2))
		root = New("root", aObject(`allOf: "@p"`, own))
		_ = root.AddType("@p", New("@p", aObject("", pp)))
		want = append(append([]aProp{}, own...), aInherit(pp, "@p")...)
		return root, want, aHasDuplicate(want)
	case 1: // chain root -> @p -> @q
		pp := aProps("p.", 1)
		qq := aProps("q.", 1)
		root = New("root", aObject(`allOf: "@p"`, own))
		_ = root.AddType("@p", New("@p", aObject(`allOf: "@q"`, pp)))
		_ = root.AddType("@q", New("@q", aObject("", qq)))
		pAll := append(append([]aProp{}, pp...), qq...)
		want = append(append([]aProp{}, own...), aInherit(pAll, "@p")...)
		return root, want, aHasDuplicate(want)
	case 2: // two parents
		pp := aProps("p.", 1)
		qq := aProps("q.", 1)
		root = New("root", aObject(`allOf: ["@p", "@q"]`, own))
		_ = root.AddType("@p", New("@p", aObject("", pp)))
		_ = root.AddType("@q", New("@q", aObject("", qq)))
		want = append(append(append([]aProp{}, own...), aInherit(pp, "@p")...), aInherit(qq, "@q")...)
		return root, want, aHasDuplicate(want)
	case 3: // diamond: both parents inherit the same grandparent
		rr := aProps("r.", 1)
		root = New("root", aObject(`allOf: ["@p", "@q"]`, own))
		_ = root.AddType("@p", New("@p", aObject(`allOf: "@r"`, nil)))
		_ = root.AddType("@q", New("@q", aObject(`allOf: "@r"`, nil)))
		_ = root.AddType("@r", New("@r", aObject("", rr)))
		want = append(append(append([]aProp{}, own...), aInherit(rr, "@p")...), aInherit(rr, "@q")...)
		return root, want, true // the grandparent's property arrives twice
	case 4: // cyclic inheritance
		root = New("root", aObject(`allOf: "@p"`, own))
		_ = root.AddType("@p", New("@p", aObject(`allOf: "@q"`, aProps("p.", 1))))
		_ = root.AddType("@q", New("@q", aObject(`allOf: "@p"`, aProps("q.", 1))))
		return root, nil, true
	case 5: // non-object parent
		root = New("root", aObject(`allOf: "@p"`, own))
		body := []string{`1`, `"s"`, `[1]`, `@q`}[zzverif.IntRange("body", 0, 3)]
		_ = root.AddType("@p", New("@p", body))
		_ = root.AddType("@q", New("@q", `{"z": 1}`))
		return root, nil, true
	default: // missing parent
		root = New("root", aObject(`allOf: "@p"`, own))
		return root, nil, true
	}
}

// VerifC07_Shapes: every project of aShape: merged exactly, or refused.
func VerifC07_Shapes() {
	zzverif.Expect("merged", "refused")
	root, want, refuse := aShape()
	aCheck(root, want, refuse)
}

// ZzC07Project hands the same project family to the harness of package
// openapi (the OpenAPI property listing): the root, the expected merged
// property list (key, optional) and whether Check() has to refuse.
func ZzC07Project() (root *JSchema, keys []string, optional []bool, refuse bool) {
	r, want, ref := aShape()
	for _, p := range want {
		keys = append(keys, p.key)
		optional = append(optional, p.optional)
	}
	return r, keys, optional, ref
}

// VerifC07_AdditionalProperties: child and parent additionalProperties from
// {absent, true, false, "string", "integer", "@t"}: refused iff both are
// written and differ in meaning.
func VerifC07_AdditionalProperties() {
	zzverif.Expect("merged", "refused")
	vals := []string{"", "true", "false", `"string"`, `"integer"`, `"@t"`}
	a := zzverif.IntRange("child", 0, len(vals)-1)
	b := zzverif.IntRange("parent", 0, len(vals)-1)
	rules := `allOf: "@p"`
	if a != 0 {
		rules += ", additionalProperties: " + vals[a]
	}
	prules := ""
	if b != 0 {
		prules = "additionalProperties: " + vals[b]
	}
	root := New("root", aObject(rules, []aProp{{key: "a"}}))
	_ = root.AddType("@p", New("@p", aObject(prules, []aProp{{key: "b"}})))
	_ = root.AddType("@t", New("@t", `{"t": 1}`))
	refuse := a != 0 && b != 0 && a != b
	want := []aProp{{key: "a"}, {key: "b", from: "@p"}}
	aCheck(root, want, refuse)
}

func aRequired(obj *ischema.ObjectNode) []string {
	c := obj.Constraint(constraint.RequiredKeysConstraintType)
	if c == nil {
		return nil
	}
	return c.(*constraint.RequiredKeys).Keys()
}

// aCheckObject compares one compiled object with its expected property list,
// including the set of required keys.
// aAllOptional: the schemas of this path were built with
// AreKeysOptionalByDefault (a property without an `optional` rule is optional).
var aAllOptional bool

func aCheckObject(obj *ischema.ObjectNode, want []aProp) {
	zzverif.Assert(len(obj.Children()) == len(want), "the compiled object has own + inherited properties")
	if len(obj.Children()) != len(want) {
		return
	}
	var req []string
	for i, p := range want {
		zzverif.Assert(obj.Key(i).Key == p.key, "own properties first, then inherited ones, in order")
		zzverif.Assert(obj.Children()[i].InheritedFrom() == p.from, "each inherited property is marked with the type it came from")
		if !p.optional && !aAllOptional {
			req = append(req, p.key)
		}
	}
	got := aRequired(obj)
	same := len(got) == len(req)
	if same {
		// as sets
		for _, k := range req {
			found := false
			for _, g := range got {
				if g == k {
					found = true
				}
			}
			same = same && found
		}
	}
	zzverif.Assert(same, "exactly the non-optional own and inherited properties are required")
}

// VerifC07_Heirs: several heirs of the same parents in one project, an heir
// inside a referenced type, and inherited object-valued properties.
func VerifC07_Heirs() {
	zzverif.Expect("checked")
	aAllOptional = false
	k1, k2, k3 := aKey("k1"), aKey("k2"), aKey("k3")
	zzverif.Assume(k1 != k2)
	o1, o2 := zzverif.Bool("opt1"), zzverif.Bool("opt2")
	pp := []aProp{{key: k1, optional: o1}}
	qq := []aProp{{key: k2, optional: o2}}
	switch zzverif.IntRange("shape", 0, 3) {
	case 3: // an heir that is an ITEM of an array (at the root, or below a member)
		missing := zzverif.Bool("parentMissing")
		zzverif.Assume(k3 != k1)
		heir := "{ // {allOf: \"@p\"}\n    \"" + k3 + "\": 1\n  }"
		text := "[\n  " + heir + "\n]"
		below := zzverif.Bool("belowMember")
		if below {
			text = "{\n  \"list\": [\n  " + heir + "\n  ]\n}"
		}
		root := New("root", text)
		if !missing {
			_ = root.AddType("@p", New("@p", aObject("", pp)))
		}
		err := root.Check()
		zzverif.Assert((err != nil) == missing, "allOf on an array item is compiled and checked like anywhere else")
		if err == nil {
			var arr *ischema.ArrayNode
			if below {
				arr = root.Inner.RootNode().(*ischema.ObjectNode).Children()[0].(*ischema.ArrayNode)
			} else {
				arr = root.Inner.RootNode().(*ischema.ArrayNode)
			}
			aCheckObject(arr.Children()[0].(*ischema.ObjectNode), append([]aProp{{key: k3}}, aInherit(pp, "@p")...))
		}
	case 0: // two heirs: the first inherits @p and @q, the second only @p
		text := "{\n  \"u\": { // {allOf: [\"@p\", \"@q\"]}\n  },\n  \"v\": { // {allOf: \"@p\"}\n    \"" + k3 + "\": 1\n  },\n  \"w\": { // {allOf: \"@q\"}\n  }\n}"
		zzverif.Assume(k3 != k1)
		aAllOptional = zzverif.Bool("optionalByDefault")
		mk := func(name, body string) *JSchema {
			x := New(name, body)
			x.AreKeysOptionalByDefault = aAllOptional
			return x
		}
		root := mk("root", text)
		_ = root.AddType("@p", mk("@p", aObject("", pp)))
		_ = root.AddType("@q", mk("@q", aObject("", qq)))
		zzverif.Assert(root.Check() == nil, "disjoint parents merge")
		ro, ok := root.Inner.RootNode().(*ischema.ObjectNode)
		zzverif.Assert(ok && len(ro.Children()) == 3, "three members")
		if ok && len(ro.Children()) == 3 {
			aCheckObject(ro.Children()[0].(*ischema.ObjectNode), append(aInherit(pp, "@p"), aInherit(qq, "@q")...))
			aCheckObject(ro.Children()[1].(*ischema.ObjectNode), append([]aProp{{key: k3}}, aInherit(pp, "@p")...))
			aCheckObject(ro.Children()[2].(*ischema.ObjectNode), aInherit(qq, "@q"))
			// the parents themselves are unchanged
			aCheckObject(root.Inner.TypesList()["@p"].Schema.RootNode().(*ischema.ObjectNode), pp)
			aCheckObject(root.Inner.TypesList()["@q"].Schema.RootNode().(*ischema.ObjectNode), qq)
		}
	case 1: // an heir nested inside a type that is only reached by reference
		missing := zzverif.Bool("parentMissing")
		nonObject := zzverif.Bool("parentNotObject")
		zzverif.Assume(!(missing && nonObject))
		zzverif.Assume(k3 != k1)
		root := New("root", `{"ref": @t}`)
		_ = root.AddType("@t", New("@t", "{\n  \"nested\": { // {allOf: \"@p\"}\n    \""+k3+"\": 1\n  }\n}"))
		if !missing {
			if nonObject {
				_ = root.AddType("@p", New("@p", `"not an object"`))
			} else {
				_ = root.AddType("@p", New("@p", aObject("", pp)))
			}
		}
		err := root.Check()
		zzverif.Assert((err != nil) == (missing || nonObject), "allOf inside a referenced type is compiled and checked like anywhere else")
		if err == nil {
			to := root.Inner.TypesList()["@t"].Schema.RootNode().(*ischema.ObjectNode)
			aCheckObject(to.Children()[0].(*ischema.ObjectNode), append([]aProp{{key: k3}}, aInherit(pp, "@p")...))
		}
	default: // an inherited property whose value is an object keeps that object's keys as written
		K := string([]byte{zzverif.OneOf("K", "aAbBzZ")}) + "x"
		root := New("root", "{ // {allOf: \"@p\"}\n}")
		_ = root.AddType("@p", New("@p", `{"addr": {"`+K+`": 1, "`+k1+`": 2}}`))
		zzverif.Assume(K != k1)
		zzverif.Assert(root.Check() == nil, "inherits an object-valued property")
		ro := root.Inner.RootNode().(*ischema.ObjectNode)
		zzverif.Assert(len(ro.Children()) == 1, "one inherited property")
		if len(ro.Children()) == 1 {
			inner, ok := ro.Children()[0].(*ischema.ObjectNode)
			zzverif.Assert(ok && len(inner.Children()) == 2 && inner.Key(0).Key == K && inner.Key(1).Key == k1, "the inherited object's keys are unchanged")
			ex, _ := root.Example()
			zzverif.Assert(string(ex) == `{"addr":{"`+K+`":1,"`+k1+`":2}}`, "Example() shows the inherited object as written")
		}
	}
	zzverif.Reach("checked")
}
