package jschema

import (
	"github.com/jsightapi/jsight-schema-core/notations/jschema/ischema"
	"github.com/jsightapi/jsight-schema-core/zzverif"
	"github.com/jsightapi/jsight-schema-core/zzverif/zzjson"
)

type aProp struct {
	key      string
	optional bool
	from     string // "" = own
}

// aObject prints an object with the given own properties and rule text.
func aObject(rules string, props []aProp) string {
	s := "{"
	if rules != "" {
		s += " // {" + rules + "}"
	}
	s += "\n"
	for i, p := range props {
		s += `  "` + p.key + `": 1`
		if i != len(props)-1 {
			s += ","
		}
		if p.optional {
			s += " // {optional: true}"
		}
		s += "\n"
	}
	return s + "}"
}

func aKey(tag string) string { return string([]byte{zzverif.OneOf(tag, "abc")}) }

func aProps(tag string, n int) []aProp {
	var ps []aProp
	for i := 0; i < n; i++ {
		k := aKey(tag + "k")
		for _, q := range ps {
			zzverif.Assume(q.key != k) // keys written in ONE object are distinct (that is a different rule)
		}
		ps = append(ps, aProp{key: k, optional: zzverif.Bool(tag + "opt")})
	}
	return ps
}

func aInherit(ps []aProp, from string) []aProp {
	var out []aProp
	for _, p := range ps {
		out = append(out, aProp{p.key, p.optional, from})
	}
	return out
}

func aHasDuplicate(ps []aProp) bool {
	for i := range ps {
		for j := 0; j < i; j++ {
			if ps[i].key == ps[j].key {
				return true
			}
		}
	}
	return false
}

// aCheck compares the compiled root with the expected merged property list.
func aCheck(root *JSchema, want []aProp, refuse bool) {
	err := root.Check()
	zzverif.Assert((err != nil) == refuse, "inheritance is merged iff no refusal reason applies")
	if err != nil {
		zzverif.Reach("refused")
		return
	}
	zzverif.Reach("merged")
	obj, isObj := root.Inner.RootNode().(*ischema.ObjectNode)
	zzverif.Assert(isObj && len(obj.Children()) == len(want), "the compiled object has own + inherited properties")
	if isObj && len(obj.Children()) == len(want) {
		for i, p := range want {
			zzverif.Assert(obj.Key(i).Key == p.key, "own properties first, then inherited ones, in order")
			c := obj.Children()[i]
			zzverif.Assert(c.InheritedFrom() == p.from, "each inherited property is marked with the type it came from")
			zzverif.Assert(ischema.IsOptionalNode(c) == p.optional, "the optional status is kept")
		}
	}
	ex, xerr := root.Example()
	zzverif.Assert(xerr == nil, "Example() succeeds")
	evs, ok := zzjson.Decode(ex)
	zzverif.Assert(ok, "Example() is JSON")
	var keys []string
	depth := 0
	for _, e := range evs {
		switch e.Kind {
		case '{', '[':
			depth++
		case '}', ']':
			depth--
		case 'k':
			if depth == 1 {
				keys = append(keys, e.Val)
			}
		}
	}
	same := len(keys) == len(want)
	if same {
		for i := range keys {
			if keys[i] != want[i].key {
				same = false
			}
		}
	}
	zzverif.Assert(same, "Example() shows exactly the merged key set in order")
}

// VerifC07_Shapes: single parent, chain, two parents, diamond, cycle,
// non-object parent, missing parent - property keys are symbolic so that
// overlaps are decided by the solver.
func VerifC07_Shapes() {
	zzverif.Expect("merged", "refused")
	shape := zzverif.IntRange("shape", 0, 6)
	own := aProps("own.", zzverif.IntRange("ownN", 0, 1))
	switch shape {
	case 0: // single parent
		pp := aProps("p.", zzverif.IntRange("pN", 1, 2))
		root := New("root", aObject(`allOf: "@p"`, own))
		_ = root.AddType("@p", New("@p", aObject("", pp)))
		want := append(append([]aProp{}, own...), aInherit(pp, "@p")...)
		aCheck(root, want, aHasDuplicate(want))
	case 1: // chain root -> @p -> @q
		pp := aProps("p.", 1)
		qq := aProps("q.", 1)
		root := New("root", aObject(`allOf: "@p"`, own))
		_ = root.AddType("@p", New("@p", aObject(`allOf: "@q"`, pp)))
		_ = root.AddType("@q", New("@q", aObject("", qq)))
		pAll := append(append([]aProp{}, pp...), qq...)
		want := append(append([]aProp{}, own...), aInherit(pAll, "@p")...)
		aCheck(root, want, aHasDuplicate(want))
	case 2: // two parents
		pp := aProps("p.", 1)
		qq := aProps("q.", 1)
		root := New("root", aObject(`allOf: ["@p", "@q"]`, own))
		_ = root.AddType("@p", New("@p", aObject("", pp)))
		_ = root.AddType("@q", New("@q", aObject("", qq)))
		want := append(append(append([]aProp{}, own...), aInherit(pp, "@p")...), aInherit(qq, "@q")...)
		aCheck(root, want, aHasDuplicate(want))
	case 3: // diamond: both parents inherit the same grandparent
		rr := aProps("r.", 1)
		root := New("root", aObject(`allOf: ["@p", "@q"]`, own))
		_ = root.AddType("@p", New("@p", aObject(`allOf: "@r"`, nil)))
		_ = root.AddType("@q", New("@q", aObject(`allOf: "@r"`, nil)))
		_ = root.AddType("@r", New("@r", aObject("", rr)))
		want := append(append(append([]aProp{}, own...), aInherit(rr, "@p")...), aInherit(rr, "@q")...)
		aCheck(root, want, true) // the grandparent's property arrives twice
	case 4: // cyclic inheritance
		root := New("root", aObject(`allOf: "@p"`, own))
		_ = root.AddType("@p", New("@p", aObject(`allOf: "@q"`, aProps("p.", 1))))
		_ = root.AddType("@q", New("@q", aObject(`allOf: "@p"`, aProps("q.", 1))))
		aCheck(root, nil, true)
	case 5: // non-object parent
		root := New("root", aObject(`allOf: "@p"`, own))
		body := []string{`1`, `"s"`, `[1]`, `@q`}[zzverif.IntRange("body", 0, 3)]
		_ = root.AddType("@p", New("@p", body))
		_ = root.AddType("@q", New("@q", `{"z": 1}`))
		aCheck(root, nil, true)
	default: // missing parent
		root := New("root", aObject(`allOf: "@p"`, own))
		aCheck(root, nil, true)
	}
}

// VerifC07_AdditionalProperties: child and parent additionalProperties from
// {absent, true, false, "string", "integer", "@t"}: refused iff both are
// written and differ in meaning.
func VerifC07_AdditionalProperties() {
	zzverif.Expect("merged", "refused")
	vals := []string{"", "true", "false", `"string"`, `"integer"`, `"@t"`}
	a := zzverif.IntRange("child", 0, len(vals)-1)
	b := zzverif.IntRange("parent", 0, len(vals)-1)
	rules := `allOf: "@p"`
	if a != 0 {
		rules += ", additionalProperties: " + vals[a]
	}
	prules := ""
	if b != 0 {
		prules = "additionalProperties: " + vals[b]
	}
	root := New("root", aObject(rules, []aProp{{key: "a"}}))
	_ = root.AddType("@p", New("@p", aObject(prules, []aProp{{key: "b"}})))
	_ = root.AddType("@t", New("@t", `{"t": 1}`))
	refuse := a != 0 && b != 0 && a != b
	want := []aProp{{key: "a"}, {key: "b", from: "@p"}}
	aCheck(root, want, refuse)
}
