package jschema

import (
	"regexp"

	"github.com/jsightapi/jsight-schema-core/notations/regex"
	"github.com/jsightapi/jsight-schema-core/zzverif"
)

// VerifC18_UserType: a regex schema registered as a user type makes a
// referring schema accept exactly the strings the pattern matches (concrete
// patterns and candidates; the regexp engine is host code).
func VerifC18_UserType() {
	zzverif.Expect("accepted", "rejected")
	pats := []string{"^[a-c]+$", "^x\\d$", "^(ab|cd)$", "^$", "^a{2}$", "^\\\\$", "^\"$", "^a\\.b$",
		"^\\/v1\\/", "\\/", "^a\\/b$", "^[a-c]\\/$"} // also patterns that END with an escaped delimiter
	// candidates: JSON spelling and decoded value
	cands := [][2]string{{"abc", "abc"}, {"x1", "x1"}, {"cd", "cd"}, {"", ""}, {"zz", "zz"}, {"x", "x"}, {"abd", "abd"},
		{"aa", "aa"}, {"a{2}", "a{2}"}, {"\\\\", "\\"}, {"\\\"", "\""}, {"a.b", "a.b"},
		{"/v1/", "/v1/"}, {"/", "/"}, {"a/b", "a/b"}, {"b/", "b/"}}
	p := pats[zzverif.IntRange("pattern", 0, len(pats)-1)]
	cand := cands[zzverif.IntRange("candidate", 0, len(cands)-1)]
	c := cand[1]
	root := New("root", `"`+cand[0]+`" // {type: "@r"}`)
	err := root.AddType("@r", regex.New("r", "/"+p+"/"))
	zzverif.Assert(err == nil, "a valid regex schema can be registered as a user type")
	cerr := root.Check()
	want := regexp.MustCompile(p).MatchString(c)
	zzverif.Assert((cerr == nil) == want, "the referring schema accepts exactly the strings matched by the pattern")
	if cerr == nil {
		zzverif.Reach("accepted")
	} else {
		zzverif.Reach("rejected")
	}
}
