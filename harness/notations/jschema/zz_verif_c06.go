package jschema

import (
	"github.com/jsightapi/jsight-schema-core/errs"
	"github.com/jsightapi/jsight-schema-core/zzverif"
	"github.com/jsightapi/jsight-schema-core/zzverif/zzjson"
)

// edge kinds of an object member referring to other types
const (
	eRequired = iota
	eOptional
	eNullable
	eArray
	eChoice
	eRequiredExplicit // `optional: false` written out: as mandatory as no rule at all
	eKinds
)

type vEdge struct {
	kind int
	x, y int // target type indexes (y only for choices)
}

type vType struct {
	fields       []vEdge
	nullableRoot bool // the type's root object carries `nullable: true`: null is an instance
}

func vTypeName(i int) string { return string([]byte{'@', byte('a' + i)}) }

func vFieldText(name string, e vEdge, last bool) string {
	X, Y := vTypeName(e.x), vTypeName(e.y)
	comma := ","
	if last {
		comma = ""
	}
	switch e.kind {
	case eRequired:
		return `  "` + name + `": ` + X + comma + "\n"
	case eOptional:
		return `  "` + name + `": ` + X + comma + ` // {optional: true}` + "\n"
	case eNullable:
		return `  "` + name + `": ` + X + comma + ` // {nullable: true}` + "\n"
	case eArray:
		return `  "` + name + `": [` + X + `]` + comma + "\n"
	case eRequiredExplicit:
		return `  "` + name + `": ` + X + comma + ` // {optional: false}` + "\n"
	default:
		return `  "` + name + `": ` + X + ` | ` + Y + comma + "\n"
	}
}

func vTypeText(t vType) string {
	s := "{\n"
	if t.nullableRoot {
		s = "{ // {nullable: true}\n"
	}
	for i, f := range t.fields {
		s += vFieldText(string([]byte{byte('f' + i)}), f, i == len(t.fields)-1)
	}
	return s + "}"
}

// vFinite computes the least fixpoint "type i has a finite instance" (DESIGN.md B.4).
func vFinite(ts []vType) []bool {
	fin := make([]bool, len(ts))
	for changed := true; changed; {
		changed = false
		for i, t := range ts {
			if fin[i] {
				continue
			}
			ok := true
			for _, f := range t.fields {
				if t.nullableRoot {
					break // null is a finite instance
				}
				switch {
				case f.kind == eRequiredExplicit || (f.kind == eRequired && !vOptionalByDefault):
					ok = ok && fin[f.x]
				case f.kind == eChoice && !vOptionalByDefault:
					ok = ok && (fin[f.x] || fin[f.y])
				}
			}
			if ok {
				fin[i] = true
				changed = true
			}
		}
	}
	return fin
}

// vSelfRequiring: the root reaches itself through >= 1 mandatory plain links.
func vSelfRequiring(ts []vType, root int) bool {
	seen := make([]bool, len(ts))
	var visit func(i int) bool
	visit = func(i int) bool {
		if ts[i].nullableRoot {
			return false // nothing is required below a nullable root
		}
		for _, f := range ts[i].fields {
			if f.kind != eRequiredExplicit && !(f.kind == eRequired && !vOptionalByDefault) {
				continue
			}
			if f.x == root {
				return true
			}
			if !seen[f.x] {
				seen[f.x] = true
				if visit(f.x) {
					return true
				}
			}
		}
		return false
	}
	return visit(root)
}

func vBuildProject(n int) ([]vType, *JSchema) {
	nf := make([]int, n)
	for i := range nf {
		nf[i] = 1
	}
	return vBuildProjectWith(nf)
}

// vBuildProjectWith: len(nf) object types, type i with nf[i] members of every
// edge kind and every target.
func vBuildProjectWith(nf []int) ([]vType, *JSchema) {
	n := len(nf)
	ts := make([]vType, n)
	for i := range ts {
		for k := 0; k < nf[i]; k++ {
			e := vEdge{kind: zzverif.IntRange("kind", 0, eKinds-1), x: zzverif.IntRange("x", 0, n-1)}
			if e.kind == eChoice {
				e.y = zzverif.IntRange("y", 0, n-1)
			}
			ts[i].fields = append(ts[i].fields, e)
		}
	}
	// the root IS the type @a: checked under its own name with every type
	// (itself included) registered, as a JSight API document does
	if vNullableRootOfSecond && n > 1 {
		ts[1].nullableRoot = zzverif.Bool("nullableRoot")
	}
	texts := make([]string, n)
	for i := range ts {
		texts[i] = vTypeText(ts[i])
	}
	linked := false
	if zzverif.Bound("linkedToo", 0, 1) == 1 {
		linked = zzverif.Bool("linked")
	}
	return ts, vLinkProject(texts, linked)
}

// VerifC06_Recursion: all reference graphs over N object types with 1-2
// members of every edge kind: (1) 'infinite type recursion' is never reported
// for a root that has a finite instance; (2) a root that requires itself
// through mandatory plain links is reported, whatever the chain length;
// (3) when Check() passes, Example() terminates and returns RFC 8259 JSON.
func VerifC06_Recursion() {
	zzverif.Expect("accepted", "recursion-reported", "self-requiring")
	zzverif.BoundIsViolation() // Example() (and Check) must terminate
	n := zzverif.Bound("types", 3, 3)
	ts, root := vBuildProject(n)
	vRecursionVerdict(ts, root)
}

// VerifC06_TwoMembers: two types, one of them with TWO members (every edge
// kind and target for each, so an optional, nullable, array or choice member
// stands before or after a mandatory link), the other with one.
func VerifC06_TwoMembers() {
	zzverif.Expect("accepted", "recursion-reported", "self-requiring")
	zzverif.BoundIsViolation()
	nf := []int{2, 1}
	if zzverif.Bool("secondTypeHasTwo") {
		nf = []int{1, 2}
	}

	vNullableRootOfSecond = true
	vOptionalByDefault = zzverif.Bool("optionalByDefault")
	ts, root := vBuildProjectWith(nf)
	vNullableRootOfSecond = false
	vRecursionVerdict(ts, root)
	vOptionalByDefault = false
}

// vNullableRootOfSecond: vBuildProjectWith lets the root object of the second
// type carry `nullable: true` (symbolic choice).
var vNullableRootOfSecond bool

func vRecursionVerdict(ts []vType, root *JSchema) {
	fin := vFinite(ts)
	self := vSelfRequiring(ts, 0)
	// mandatory cycles through two or more OTHER types (root -> @x -> @y -> root)
	zzverif.Known("C06-long-mandatory-cycle", self && vShortestSelfCycle(ts, 0) >= 3)
	err := root.Check()
	code := vErrCode(err)
	if code == errs.ErrInfiniteRecursionDetected {
		zzverif.Reach("recursion-reported")
		zzverif.Assert(!fin[0], "'infinite type recursion' is only reported for a root without a finite instance")
	}
	if self {
		zzverif.Reach("self-requiring")
		zzverif.Assert(code == errs.ErrInfiniteRecursionDetected, "a root that requires itself through mandatory links is reported")
	}
	if err == nil {
		zzverif.Reach("accepted")
		ex, xerr := root.Example()
		zzverif.Assert(xerr == nil, "Example() of an accepted schema succeeds")
		_, ok := zzjson.Decode(ex)
		zzverif.Assert(ok, "Example() of an accepted schema is RFC 8259 JSON")
	}
}

// vShortestSelfCycle: number of mandatory plain links on the shortest way
// from the root back to itself (0 if there is none).
func vShortestSelfCycle(ts []vType, root int) int {
	dist := make([]int, len(ts))
	for i := range dist {
		dist[i] = -1
	}
	frontier := []int{root}
	for d := 1; d <= len(ts) && len(frontier) > 0; d++ {
		var next []int
		for _, i := range frontier {
			if ts[i].nullableRoot {
				continue
			}
			for _, f := range ts[i].fields {
				if f.kind != eRequiredExplicit && !(f.kind == eRequired && !vOptionalByDefault) {
					continue
				}
				if f.x == root {
					return d
				}
				if dist[f.x] < 0 {
					dist[f.x] = d
					next = append(next, f.x)
				}
			}
		}
		frontier = next
	}
	return 0
}

// VerifC06_ChoiceShapes: four types - @a with two members, @b and @c with one,
// @d a leaf - every member either a mandatory plain link or a choice
// `@x | @d` / `@x | @y`: the shapes in which a dead-end alternative of a choice
// is met before or after a mandatory link to the same type.
func VerifC06_ChoiceShapes() {
	zzverif.Expect("accepted", "recursion-reported")
	zzverif.BoundIsViolation()
	edge := func(tag string) vEdge {
		e := vEdge{x: zzverif.IntRange(tag+"x", 0, 2)}
		kinds := 1
		if tag[0] == 'a' {
			// thorough: the two members of @a may also be choices between two
			// arbitrary types (for all four members the space is 100 000 paths)
			kinds = zzverif.Bound("choiceKinds", 1, 2)
		}
		switch zzverif.IntRange(tag+"kind", 0, kinds) {
		case 0:
			e.kind = eRequired
		case 1:
			e.kind, e.y = eChoice, 3 // other alternative: the leaf
		default:
			e.kind, e.y = eChoice, zzverif.IntRange(tag+"y", 0, 2)
		}
		return e
	}
	ts := []vType{
		{fields: []vEdge{edge("a1."), edge("a2.")}},
		{fields: []vEdge{edge("b.")}},
		{fields: []vEdge{edge("c.")}},
		{}, // @d: leaf, printed below
	}
	text := func(i int) string {
		if i == 3 {
			return `{"leaf": 1}`
		}
		return vTypeText(ts[i])
	}
	texts := []string{text(0), text(1), text(2), text(3)}
	root := vLinkProject(texts, zzverif.Bool("linked"))
	fin := vFinite(ts)
	self := vSelfRequiring(ts, 0)
	zzverif.Known("C06-long-mandatory-cycle", self && vShortestSelfCycle(ts, 0) >= 3)
	err := root.Check()
	code := vErrCode(err)
	if code == errs.ErrInfiniteRecursionDetected {
		zzverif.Reach("recursion-reported")
		zzverif.Assert(!fin[0], "'infinite type recursion' is only reported for a root without a finite instance")
	}
	if self {
		zzverif.Assert(code == errs.ErrInfiniteRecursionDetected, "a root that requires itself through mandatory links is reported")
	}
	if err == nil {
		zzverif.Reach("accepted")
		ex, xerr := root.Example()
		zzverif.Assert(xerr == nil, "Example() of an accepted schema succeeds")
		_, ok := zzjson.Decode(ex)
		zzverif.Assert(ok, "Example() of an accepted schema is RFC 8259 JSON")
	}
}

// vLinkProject builds the root (= type @a under its own name) with every type
// registered. With linked, ONE schema object per type is created and every
// type is registered in every schema (as a document processor does), so that
// names met inside a type resolve in that type's own table as well.
// vOptionalByDefault: the schemas of this path are built with
// AreKeysOptionalByDefault - a member without an `optional` rule is optional,
// only `optional: false` makes it mandatory.
var vOptionalByDefault bool

func vNewSchema(name, text string) *JSchema {
	s := New(name, text)
	s.AreKeysOptionalByDefault = vOptionalByDefault
	return s
}

func vLinkProject(texts []string, linked bool) *JSchema {
	if !linked {
		root := vNewSchema(vTypeName(0), texts[0])
		for i := range texts {
			_ = root.AddType(vTypeName(i), vNewSchema(vTypeName(i), texts[i]))
		}
		return root
	}
	ss := make([]*JSchema, len(texts))
	for i := range texts {
		ss[i] = vNewSchema(vTypeName(i), texts[i])
	}
	for _, s := range ss {
		for j := range ss {
			_ = s.AddType(vTypeName(j), ss[j])
		}
	}
	return ss[0]
}
