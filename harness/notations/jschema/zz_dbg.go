package jschema

import (
	"github.com/jsightapi/jsight-schema-core/zzverif"
)

func VerifDBG_Pipeline() {
	d := zzverif.Digit("d")
	text := []byte("{\n\"a\": 1, // {min: 0}\n\"b\": \"x\" // {minLength: 1}\n}")
	text[7] = d
	s := New("s", text)
	err := s.Check()
	zzverif.Observe("err", err == nil)
	ex, err2 := s.Example()
	zzverif.Observe("ex", ex, err2 == nil)
	ast, err3 := s.GetAST()
	zzverif.Observe("ast", len(ast.Children), err3 == nil)
	u, _ := s.UsedUserTypes()
	zzverif.Observe("used", len(u))
}
