package jschema

import (
	"github.com/jsightapi/jsight-schema-core/zzverif"
	"github.com/jsightapi/jsight-schema-core/zzverif/zzdiag"
)

func vLetter(name string) byte { return zzverif.OneOf(name, "abc") }

func vNext(c byte) byte {
	if c == 'c' {
		return 'a'
	}
	return c + 1
}

// vTypeBody returns the text of one user type whose references point at the
// symbolic targets x and y.
func vTypeBody(kind int, x, y byte) []byte {
	X := string([]byte{'@', x})
	Y := string([]byte{'@', y})
	switch kind {
	case 0:
		return []byte(X)
	case 1:
		return []byte(X + " | " + Y)
	case 2:
		return []byte(`{"k": ` + X + `}`)
	case 3:
		return []byte(`{` + X + `: 1}`)
	case 4:
		return []byte(`[` + X + `]`)
	case 5:
		return []byte("{ // {allOf: \"" + X + "\"}\n}")
	case 6:
		return []byte(`1 // {type: "` + X + `"}`)
	case 7:
		return []byte(`1 // {or: ["` + X + `", "` + Y + `"]}`)
	case 8:
		return []byte("{\n\"k\": 1 // {type: \"" + X + "\", optional: true}\n}")
	default:
		return []byte(`"a" // {or: ["` + X + `", "string"]}`)
	}
}

var vRoots = []string{`@a`, `{"r": @a}`, `[@a, @b]`, `{@a: 1}`, `{"r": 1 // {type: "@b"}` + "\n}"}

// VerifC02_TypeProjects: small projects of mutually / self referencing user
// types (every body kind, every target) never crash, hang or overflow the
// stack in any public operation.
func VerifC02_TypeProjects() {
	zzverif.Expect("accepted", "rejected")
	zzverif.BoundIsViolation()
	vTypeProjects(false)
}

// VerifC16_TypeProjects: the same projects; every error any operation returns
// (AddType included) is a well-formed diagnostic.
func VerifC16_TypeProjects() {
	zzverif.Expect("accepted", "rejected")
	vTypeProjects(true)
}

func vTypeProjects(diag bool) {
	nTypes := zzverif.Bound("types", 2, 3)
	kinds := zzverif.Bound("kinds", 10, 7)
	root := New("root", vRoots[zzverif.IntRange("root", 0, len(vRoots)-1)])
	names := []string{"@a", "@b", "@c"}
	for i := 0; i < nTypes; i++ {
		k := zzverif.IntRange("kind", 0, kinds-1)
		x := vLetter("x")
		y := vNext(x)
		if nTypes == 2 {
			y = vLetter("y")
		}
		body := vTypeBody(k, x, y)
		err := root.AddType(names[i], New(names[i], body))
		if diag {
			zzdiag.Diag(err, 1<<30)
		}
	}
	_, err := root.Len()
	if diag {
		zzdiag.Diag(err, 1<<30)
	}
	err = root.Check()
	if diag {
		zzdiag.Diag(err, 1<<30)
	}
	if err == nil {
		zzverif.Reach("accepted")
	} else {
		zzverif.Reach("rejected")
	}
	_, err = root.Example()
	if diag {
		zzdiag.Diag(err, 1<<30)
	}
	_, err = root.GetAST()
	if diag {
		zzdiag.Diag(err, 1<<30)
	}
	_, err = root.UsedUserTypes()
	if diag {
		zzdiag.Diag(err, 1<<30)
	}
}

var vDegenerate = []string{"", " ", "\n", "\t\r\n ", "# only a comment", "###\nblock\n###", "# c\n", "1 # c", "{", `"x"`}

// VerifC02_DegenerateTypes: user types whose text has NO value at all (empty,
// blanks, only a user comment) - such a text loads without an error - or is
// cut short, registered under the names the root refers to: every operation
// returns, twice in a row.
func VerifC02_DegenerateTypes() {
	zzverif.Expect("accepted", "rejected")
	zzverif.BoundIsViolation()
	vDegenerateTypes(false)
}

// VerifC16_DegenerateTypes: the same projects; every error is a well-formed diagnostic.
func VerifC16_DegenerateTypes() {
	zzverif.Expect("accepted", "rejected")
	vDegenerateTypes(true)
}

func vDegenerateTypes(diag bool) {
	root := New("root", vRoots[zzverif.IntRange("root", 0, len(vRoots)-1)])
	ta := vDegenerate[zzverif.IntRange("a", 0, len(vDegenerate)-1)]
	tb := vDegenerate[zzverif.IntRange("b", 0, len(vDegenerate)-1)]
	for i, t := range []string{ta, tb} {
		name := []string{"@a", "@b"}[i]
		err := root.AddType(name, New(name, t))
		if diag {
			zzdiag.Diag(err, 1<<30)
		}
	}
	for rep := 0; rep < 2; rep++ {
		err := root.Check()
		if diag {
			zzdiag.Diag(err, 1<<30)
		}
		if err == nil {
			zzverif.Reach("accepted")
		} else {
			zzverif.Reach("rejected")
		}
		_, err = root.Example()
		if diag {
			zzdiag.Diag(err, 1<<30)
		}
		_, err = root.GetAST()
		if diag {
			zzdiag.Diag(err, 1<<30)
		}
	}
}
