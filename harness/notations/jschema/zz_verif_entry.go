package jschema

import (
	"github.com/jsightapi/jsight-schema-core/zzverif"
	"github.com/jsightapi/jsight-schema-core/zzverif/zzdiag"
)

// vEntryPoints drives every public operation of a schema text. Escaped
// panics, exceeded step/depth budgets (hang or stack overflow candidates) are
// engine-level violations (C02); with diag the returned errors are checked (C16).
func vEntryPoints(text []byte, diag bool) {
	n, err := New("s", text).Len()
	if diag {
		zzdiag.Diag(err, len(text))
	}
	if err == nil {
		zzverif.Assert(int(n) <= len(text), "Len() never exceeds the text")
	}
	s := New("s", text)
	err = s.Check()
	if diag {
		zzdiag.Diag(err, len(text))
	}
	if err == nil {
		zzverif.Reach("accepted")
	}
	_, err = s.Example()
	if diag {
		zzdiag.Diag(err, len(text))
	}
	_, err = s.GetAST()
	if diag {
		zzdiag.Diag(err, len(text))
	}
	_, err = New("s", text).UsedUserTypes()
	if diag {
		zzdiag.Diag(err, len(text))
	}
}

var vSchemaCorpus = []string{
	"{\n  \"a\": 1, // {min: 0}\n  \"b\": \"x\" // {minLength: 1} - note\n}",
	"[ // {minItems: 1}\n  @t, // note\n  12.5 // {precision: 1}\n]",
	"42 /* {type: \"integer\", nullable: true}\n - a note */",
	"{ // {allOf: \"@a\"}\n  @k: 1 // {optional: true}\n}",
	"@a | @b // {or: [\"@a\", \"@b\"]}",
	"\"x\" // {or: [{type: \"string\", maxLength: 3}, \"integer\"]}",
	"\"x\" // {enum: [\"x\", 1, true, null]}",
	"\"x\" // {enum: @e}",
	"{} // {additionalProperties: \"string\"}",
	"\"\\u0041\\n\" // {regex: \"A.\"}",
	"1 # comment\n### block\n###\n",
	"true // {const: true}",
	"null",
	"-0.5e+1",
}

func vTextFamily(tag string) []byte {
	fam := zzverif.IntRange(tag+"family", 0, 2)
	if fam == 2 {
		// single-byte mutation: a corpus schema with ONE byte, at any position,
		// replaced by an arbitrary byte (the rest of the text follows)
		d := zzverif.IntRange(tag+"doc", 0, len(vSchemaCorpus)-1)
		doc := []byte(vSchemaCorpus[d])
		for k := 0; k+5 < len(doc); k++ {
			// a mutated subject or pattern of a regex rule would need the regular
			// expression engine on symbolic bytes (host code): outside the bound
			zzverif.Assume(string(doc[k:k+5]) != "regex")
		}
		at := zzverif.IntRange(tag+"at", 0, len(doc)-1)
		doc[at] = zzverif.Byte(tag + "byte")
		return doc
	}
	if fam == 0 {
		n := zzverif.IntRange(tag+"len", 0, zzverif.Bound("N", 3, 3))
		return zzverif.Bytes(tag+"text", n)
	}
	d := zzverif.IntRange(tag+"doc", 0, len(vSchemaCorpus)-1)
	doc := vSchemaCorpus[d]
	cut := zzverif.IntRange(tag+"cut", 0, len(doc))
	k := zzverif.IntRange(tag+"k", 0, zzverif.Bound("K", 1, 2))
	tail := zzverif.Bytes(tag+"tail", k)
	if k == 2 {
		// the first of two arbitrary bytes is ASCII: a non-ASCII byte followed by
		// a closing quotation mark would put a symbolic multi-byte sequence
		// INSIDE a complete string, which the engine's string-decoding model
		// does not cover (outside the bound; as the LAST byte any value is covered)
		zzverif.Assume(tail[0] < 0x80)
	}
	return append([]byte(doc[:cut]), tail...)
}

// VerifC02_JSchemaText: every public operation on every text of up to N
// arbitrary bytes, and on every prefix of the corpus schemas followed by K
// arbitrary bytes, returns (no escaped panic, no exhausted budget).
func VerifC02_JSchemaText() {
	zzverif.Expect("accepted")
	zzverif.BoundIsViolation()
	vEntryPoints(vTextFamily(""), false)
}

// VerifC16_JSchemaText: the same inputs; every rejection is a well-formed diagnostic.
func VerifC16_JSchemaText() {
	zzverif.Expect("accepted", "rejected")
	vEntryPoints(vTextFamily(""), true)
}
