package jschema

import (
	"github.com/jsightapi/jsight-schema-core/notations/jschema/ischema"
	"github.com/jsightapi/jsight-schema-core/zzverif"
	"github.com/jsightapi/jsight-schema-core/zzverif/zzjson"
)

type hResult struct {
	op      int
	obj     int
	bytes   []byte // as returned (may alias internals)
	copyB   string // snapshot at return time
	strs    []string
	copyS   []string
	errCode int
}

const (
	hExample = iota
	hUsed
	hCheck
	hLen
	hOps
)

func hTexts() []string {
	d1 := string([]byte{zzverif.Digit("d1")})
	d2 := string([]byte{zzverif.Digit("d2")})
	s := string([]byte{zzverif.OneOf("s", "abc")})
	return []string{
		`{"a": ` + d1 + `, "b": [` + d2 + `, "` + s + `"], "c": @t}`,
		`{"k": "` + s + s + `", "n": {"m": ` + d2 + `}, "t": @t | @u}`,
		`[` + d1 + `, {"z": "` + s + `"}]`,
		`{"a": 1 // {min: ` + d1 + `, bogusRule: 1}` + "\n}", // fails inside the loader (unknown rule) for every d1
		`{"a": ` + d1,                  // fails inside the scanner: unexpected end
		`{"a": 1, "b": [` + d1 + `, 2`, // fails after the root node and a nested array exist
		"# only a comment " + s,        // a schema without a root value
		hLongArray(d2),                 // an example longer than the pooled buffers' initial size
		"{\n  \"k\": " + d1 + ",\n  \"a\": {} // {or: [{type: \"object\"}, {type: \"string\"}]}\n}", // passes Check(); Example() fails inside a nested member
		"{\n  \"a\": " + d1 + " // {min: 99}\n}",                                                         // fails after the load, in the checker
		`{"m": @missing, "n": [` + d2 + `]}`,                                                                // fails after the load: unknown type
	}
}

func hLongArray(d string) string {
	t := "["
	for i := 0; i < 120; i++ {
		if i > 0 {
			t += ","
		}
		t += "1234" + d
	}
	return t + "]"
}

func hNew(text string) *JSchema {
	s := New("s", text)
	_ = s.AddType("@t", New("@t", `"tt"`))
	_ = s.AddType("@u", New("@u", `12`))
	return s
}

func hDo(s *JSchema, op, obj int) hResult {
	r := hResult{op: op, obj: obj}
	switch op {
	case hExample:
		b, err := s.Example()
		r.bytes, r.copyB, r.errCode = b, string(b), int(vErrCode(err))
	case hUsed:
		u, err := s.UsedUserTypes()
		r.strs, r.copyS, r.errCode = u, append([]string{}, u...), int(vErrCode(err))
	case hCheck:
		r.errCode = int(vErrCode(s.Check()))
	default:
		n, err := s.Len()
		r.copyB, r.errCode = string([]byte{byte('0' + n%10), byte('0' + (n/10)%10)}), int(vErrCode(err))
	}
	return r
}

func hSameResult(a, b hResult) bool {
	return a.errCode == b.errCode && a.copyB == b.copyB && vSameStrings(a.copyS, b.copyS)
}

// VerifC10_History: sequences of K operations over three schema objects (two
// valid, one failing inside the scanner or the loader) under the LIFO pool
// model: (1) every returned value still equals the snapshot taken when it was
// returned, after all later calls; (2) every result equals the result the same
// call gives as the first thing a fresh process does (pool model: always New).
func VerifC10_History() {
	zzverif.Expect("reused-buffer")
	texts := hTexts()
	k := zzverif.Bound("ops", 2, 3)
	type step struct{ op, obj int }
	var steps []step
	for i := 0; i < k; i++ {
		op := hExample
		if k == 2 || i == 1 {
			// with three steps (thorough) the first and the last one are
			// Example() - the operation whose result can alias a pooled
			// buffer - and the middle one is any operation
			op = zzverif.IntRange("op", 0, hOps-1)
		}
		steps = append(steps, step{op, zzverif.IntRange("obj", 0, len(texts)-1)})
	}
	// reference: each call alone, nothing pooled
	zzverif.SetPoolMode(1)
	var ref []hResult
	for _, st := range steps {
		ref = append(ref, hDo(hNew(texts[st.obj]), st.op, st.obj))
	}
	// the sequence, objects shared across steps, pooled buffers reused
	zzverif.SetPoolMode(0)
	objs := make([]*JSchema, len(texts))
	var got []hResult
	for _, st := range steps {
		if objs[st.obj] == nil {
			objs[st.obj] = hNew(texts[st.obj])
		}
		got = append(got, hDo(objs[st.obj], st.op, st.obj))
	}
	for i := range got {
		if got[i].op == hExample {
			zzverif.Assert(string(got[i].bytes) == got[i].copyB, "returned bytes are unchanged by later calls")
			if got[i].errCode == 0 {
				// independent of any reference run in the same process
				_, isJSON := zzjson.Decode(got[i].bytes)
				zzverif.Assert(isJSON, "a returned example is RFC 8259 JSON whatever was processed before")
			}
		}
		zzverif.Assert(vSameStrings(got[i].strs, got[i].copyS), "returned lists are unchanged by later calls")
	}
	for i := range got {
		// an operation repeated on the same object returns the memoised result;
		// compare with the reference of the FIRST such operation on that object
		zzverif.Assert(hSameResult(got[i], ref[i]), "the result does not depend on what was processed before")
	}
	zzverif.Reach("reused-buffer")
}

// VerifC10_RejectedAddType: an AddType call that is refused (name already
// taken, or not a type name) leaves no trace: the registered type is still the
// first one everywhere a caller can see it, and every result equals the result
// of an object that never saw the refused call.
func VerifC10_RejectedAddType() {
	zzverif.Expect("refused")
	d := string([]byte{zzverif.Digit("d")})
	rootText := []string{`{"r": @t, "n": ` + d + `}`, "{ // {allOf: \"@t\"}\n  \"own\": " + d + "\n}", `@t`}[zzverif.IntRange("root", 0, 2)]
	first := `{"a": ` + d + `}`
	second := []string{`{"b": "x"}`, `"s"`, `{"a": ` + d}[zzverif.IntRange("second", 0, 2)]
	name := []string{"@t", "t", "@"}[zzverif.IntRange("name", 0, 2)]
	mk := func() (*JSchema, *JSchema) {
		s := New("root", rootText)
		a := New("@t", first)
		zzverif.Assert(s.AddType("@t", a) == nil, "a valid type can be registered")
		return s, a
	}
	ref, _ := mk()
	s, a := mk()
	b := New(name, second)
	err := s.AddType(name, b)
	zzverif.Assert(err != nil, "a second type under a taken or invalid name is refused")
	zzverif.Reach("refused")
	got, ok := s.UserTypeCollection["@t"]
	zzverif.Assert(ok && got == a, "the collection still holds the accepted type")
	if name != "@t" {
		_, leaked := s.UserTypeCollection[name]
		zzverif.Assert(!leaked, "a refused name does not appear in the collection")
	}
	zzverif.Assert(len(s.UserTypeCollection) == 1, "the collection has exactly the accepted type")
	zzverif.Assert(vErrCode(s.Check()) == vErrCode(ref.Check()), "Check() is not affected by the refused call")
	x1, e1 := s.Example()
	x2, e2 := ref.Example()
	zzverif.Assert(string(x1) == string(x2) && vErrCode(e1) == vErrCode(e2), "Example() is not affected by the refused call")
}

// VerifC10_SharedTypeAfterFailure: ONE type object with `allOf: ["@B", "@M"]`
// is registered in a first root whose compile fails half-way (@M missing, not an object, or repeating a key there) and then in a second root where everything it needs is
// registered: the second root gives the results a fresh process gives.
func VerifC10_SharedTypeAfterFailure() {
	zzverif.Expect("first-fails")
	d := string([]byte{zzverif.Digit("d")})
	allOf := []string{`["@B", "@M"]`, `["@M", "@B"]`, `"@M"`}[zzverif.IntRange("allOf", 0, 2)]
	typeText := "{ // {allOf: " + allOf + "}\n  \"a\": " + d + "\n}"
	mk := func(a *JSchema, m string) *JSchema {
		r := New("r", `{"x": @A}`)
		_ = r.AddType("@A", a)
		_ = r.AddType("@B", New("@B", `{"b": 2}`))
		if m != "" {
			_ = r.AddType("@M", New("@M", m))
		}
		return r
	}
	shared := New("@A", typeText)
	// @M missing, not an object, or an object that repeats a key of @B / of the heir
	fm := zzverif.IntRange("firstM", 0, 4)
	zzverif.Assume(!(fm == 3 && allOf == `"@M"`)) // {"b": 9} only clashes when @B is inherited too
	first := mk(shared, []string{"", `1`, `[1]`, `{"b": 9}`, `{"a": 9}`}[fm])
	if zzverif.Bool("viaExample") {
		_, err := first.Example()
		zzverif.Assert(err != nil, "the first root is refused")
	} else {
		zzverif.Assert(first.Check() != nil, "the first root is refused")
	}
	zzverif.Reach("first-fails")
	second := mk(shared, `{"m": 3}`)
	ref := mk(New("@A", typeText), `{"m": 3}`)
	zzverif.Assert(vErrCode(second.Check()) == vErrCode(ref.Check()), "Check() of the second root does not depend on the failed first one")
	x1, e1 := second.Example()
	x2, e2 := ref.Example()
	zzverif.Assert(string(x1) == string(x2) && vErrCode(e1) == vErrCode(e2), "Example() of the second root does not depend on the failed first one")
}

// VerifC10_SharedParentType: ONE type object is inherited from by two schemas
// under two names: what the first compiled schema reports about its inherited
// properties does not change when the second one is compiled, and the type's
// own properties are never marked as inherited.
func VerifC10_SharedParentType() {
	zzverif.Expect("compared")
	d := string([]byte{zzverif.Digit("d")})
	base := New("base", `{"id": `+d+`, "o": {"k": 1}, "l": [`+d+`]}`)
	origin := func(s *JSchema) []string {
		var out []string
		if obj, ok := s.Inner.RootNode().(*ischema.ObjectNode); ok {
			for i, c := range obj.Children() {
				out = append(out, obj.Key(i).Key+"<"+c.InheritedFrom())
			}
		}
		return out
	}
	a := New("a", "{ // {allOf: \"@base\"}\n  \"own\": 1\n}")
	_ = a.AddType("@base", base)
	zzverif.Assert(a.Check() == nil, "the first heir is accepted")
	before := origin(a)
	if zzverif.Bool("secondHeir") {
		b := New("b", "{ // {allOf: \"@parent\"}\n  \"x\": 2\n}")
		_ = b.AddType("@parent", base)
		zzverif.Assert(b.Check() == nil, "the second heir is accepted")
	} else {
		_ = base.Check()
	}
	zzverif.Reach("compared")
	zzverif.Assert(vSameStrings(origin(a), before), "the compiled first heir is not changed by a later compile that shares its parent type")
	zzverif.Assert(vSameStrings(origin(base), []string{"id<", "o<", "l<"}), "the parent type's own properties are not marked as inherited")
}
