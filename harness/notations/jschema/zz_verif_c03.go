package jschema

import (
	schema "github.com/jsightapi/jsight-schema-core"
	"github.com/jsightapi/jsight-schema-core/zzverif"
)

// ---- reference JSON decoder producing a canonical event list (DESIGN.md B.2) ----

type jEv struct {
	kind byte   // { } [ ] k s n t f z
	val  string // decoded key/string, number literal
}

type jDec struct {
	b  []byte
	i  int
	ev []jEv
}

func jBlank(c byte) bool { return c == ' ' || c == '\t' || c == '\n' || c == '\r' }
func jDigit(c byte) bool { return c >= '0' && c <= '9' }

func jHexVal(c byte) (int, bool) {
	switch {
	case c >= '0' && c <= '9':
		return int(c - '0'), true
	case c >= 'a' && c <= 'f':
		return int(c-'a') + 10, true
	case c >= 'A' && c <= 'F':
		return int(c-'A') + 10, true
	}
	return 0, false
}

func jEncodeRune(out []byte, r int) []byte {
	switch {
	case r < 0x80:
		return append(out, byte(r))
	case r < 0x800:
		return append(out, byte(0xC0|r>>6), byte(0x80|r&0x3F))
	case r < 0x10000:
		return append(out, byte(0xE0|r>>12), byte(0x80|(r>>6)&0x3F), byte(0x80|r&0x3F))
	}
	return append(out, byte(0xF0|r>>18), byte(0x80|(r>>12)&0x3F), byte(0x80|(r>>6)&0x3F), byte(0x80|r&0x3F))
}

func (d *jDec) ws() {
	for d.i < len(d.b) && jBlank(d.b[d.i]) {
		d.i++
	}
}

func (d *jDec) hex4() (int, bool) {
	if d.i+4 > len(d.b) {
		return 0, false
	}
	r := 0
	for k := 0; k < 4; k++ {
		h, ok := jHexVal(d.b[d.i+k])
		if !ok {
			return 0, false
		}
		r = r<<4 | h
	}
	d.i += 4
	return r, true
}

// str decodes the string literal at d.i (pointing at the opening quote).
func (d *jDec) str() ([]byte, bool) {
	d.i++
	var out []byte
	for d.i < len(d.b) {
		c := d.b[d.i]
		switch {
		case c == '"':
			d.i++
			return out, true
		case c == '\\':
			d.i++
			if d.i >= len(d.b) {
				return nil, false
			}
			e := d.b[d.i]
			d.i++
			switch e {
			case '"', '\\', '/':
				out = append(out, e)
			case 'b':
				out = append(out, '\b')
			case 'f':
				out = append(out, '\f')
			case 'n':
				out = append(out, '\n')
			case 'r':
				out = append(out, '\r')
			case 't':
				out = append(out, '\t')
			case 'u':
				r, ok := d.hex4()
				if !ok {
					return nil, false
				}
				if r >= 0xD800 && r < 0xDC00 && d.i+6 <= len(d.b) && d.b[d.i] == '\\' && d.b[d.i+1] == 'u' {
					save := d.i
					d.i += 2
					r2, ok2 := d.hex4()
					if ok2 && r2 >= 0xDC00 && r2 < 0xE000 {
						out = jEncodeRune(out, 0x10000+(r-0xD800)<<10+(r2-0xDC00))
						continue
					}
					d.i = save
				}
				if r >= 0xD800 && r < 0xE000 {
					r = 0xFFFD
				}
				out = jEncodeRune(out, r)
			default:
				return nil, false
			}
		case c < 0x20:
			return nil, false
		default:
			out = append(out, c)
			d.i++
		}
	}
	return nil, false
}

func (d *jDec) value(depth int) bool {
	d.ws()
	if d.i >= len(d.b) || depth > 6 {
		return false
	}
	c := d.b[d.i]
	switch {
	case c == '{':
		d.ev = append(d.ev, jEv{'{', ""})
		d.i++
		d.ws()
		if d.i < len(d.b) && d.b[d.i] == '}' {
			d.i++
			d.ev = append(d.ev, jEv{'}', ""})
			return true
		}
		for {
			d.ws()
			if d.i >= len(d.b) || d.b[d.i] != '"' {
				return false
			}
			k, ok := d.str()
			if !ok {
				return false
			}
			d.ev = append(d.ev, jEv{'k', string(k)})
			d.ws()
			if d.i >= len(d.b) || d.b[d.i] != ':' {
				return false
			}
			d.i++
			if !d.value(depth + 1) {
				return false
			}
			d.ws()
			if d.i >= len(d.b) {
				return false
			}
			if d.b[d.i] == ',' {
				d.i++
				continue
			}
			if d.b[d.i] == '}' {
				d.i++
				d.ev = append(d.ev, jEv{'}', ""})
				return true
			}
			return false
		}
	case c == '[':
		d.ev = append(d.ev, jEv{'[', ""})
		d.i++
		d.ws()
		if d.i < len(d.b) && d.b[d.i] == ']' {
			d.i++
			d.ev = append(d.ev, jEv{']', ""})
			return true
		}
		for {
			if !d.value(depth + 1) {
				return false
			}
			d.ws()
			if d.i >= len(d.b) {
				return false
			}
			if d.b[d.i] == ',' {
				d.i++
				continue
			}
			if d.b[d.i] == ']' {
				d.i++
				d.ev = append(d.ev, jEv{']', ""})
				return true
			}
			return false
		}
	case c == '"':
		s, ok := d.str()
		if !ok {
			return false
		}
		d.ev = append(d.ev, jEv{'s', string(s)})
		return true
	case c == '-' || jDigit(c):
		st := d.i
		if c == '-' {
			d.i++
		}
		if d.i >= len(d.b) || !jDigit(d.b[d.i]) {
			return false
		}
		if d.b[d.i] == '0' {
			d.i++
		} else {
			for d.i < len(d.b) && jDigit(d.b[d.i]) {
				d.i++
			}
		}
		if d.i < len(d.b) && d.b[d.i] == '.' {
			d.i++
			if d.i >= len(d.b) || !jDigit(d.b[d.i]) {
				return false
			}
			for d.i < len(d.b) && jDigit(d.b[d.i]) {
				d.i++
			}
		}
		if d.i < len(d.b) && (d.b[d.i] == 'e' || d.b[d.i] == 'E') {
			return false // exponent forms are outside the property
		}
		d.ev = append(d.ev, jEv{'n', string(d.b[st:d.i])})
		return true
	case c == 't' && d.i+4 <= len(d.b) && string(d.b[d.i:d.i+4]) == "true":
		d.i += 4
		d.ev = append(d.ev, jEv{'t', ""})
		return true
	case c == 'f' && d.i+5 <= len(d.b) && string(d.b[d.i:d.i+5]) == "false":
		d.i += 5
		d.ev = append(d.ev, jEv{'f', ""})
		return true
	case c == 'n' && d.i+4 <= len(d.b) && string(d.b[d.i:d.i+4]) == "null":
		d.i += 4
		d.ev = append(d.ev, jEv{'z', ""})
		return true
	}
	return false
}

func jDecode(b []byte) ([]jEv, bool) {
	d := &jDec{b: b}
	if !d.value(0) {
		return nil, false
	}
	d.ws()
	if d.i != len(b) {
		return nil, false
	}
	return d.ev, true
}

func jSame(a, b []jEv) bool {
	if len(a) != len(b) {
		return false
	}
	for i := range a {
		if a[i].kind != b[i].kind || a[i].val != b[i].val {
			return false
		}
	}
	return true
}

// jFromAST flattens an AST into the same event list.
func jFromAST(n schema.ASTNode, out []jEv) []jEv {
	switch n.TokenType {
	case schema.TokenTypeObject:
		out = append(out, jEv{'{', ""})
		for _, c := range n.Children {
			out = append(out, jEv{'k', c.Key})
			out = jFromAST(c, out)
		}
		return append(out, jEv{'}', ""})
	case schema.TokenTypeArray:
		out = append(out, jEv{'[', ""})
		for _, c := range n.Children {
			out = jFromAST(c, out)
		}
		return append(out, jEv{']', ""})
	case schema.TokenTypeString:
		return append(out, jEv{'s', n.Value})
	case schema.TokenTypeNumber:
		return append(out, jEv{'n', n.Value})
	case schema.TokenTypeBoolean:
		if n.Value == "true" {
			return append(out, jEv{'t', ""})
		}
		return append(out, jEv{'f', ""})
	case schema.TokenTypeNull:
		return append(out, jEv{'z', ""})
	}
	return append(out, jEv{'?', n.TokenType})
}

// ---- holes ----

// jPiece appends one string-content piece: a plain byte, a simple escape, a
// \u00XX escape with symbolic hex digits, a concrete multi-byte character or
// a concrete surrogate pair.
func jPiece(tag string, lit []byte) []byte {
	switch zzverif.IntRange(tag+"piece", 0, 4) {
	case 0:
		return append(lit, zzverif.OneOf(tag+"c", "a0 :,{[/#@"))
	case 1:
		return append(lit, '\\', zzverif.OneOf(tag+"e", "\"\\/bfnrt"))
	case 2:
		return append(lit, '\\', 'u', '0', '0', zzverif.OneOf(tag+"h", "0123456789abcdefABCDEF"), zzverif.OneOf(tag+"h", "0123456789abcdefABCDEF"))
	case 3:
		return append(lit, []string{"é", "€", "😀"}[zzverif.IntRange(tag+"utf8", 0, 2)]...)
	default:
		return append(lit, `😀`...)
	}
}

func jString(tag string, maxPieces int) []byte {
	lit := []byte{'"'}
	n := zzverif.IntRange(tag+"pieces", 0, maxPieces)
	for i := 0; i < n; i++ {
		lit = jPiece(tag, lit)
	}
	return append(lit, '"')
}

func jScalar(tag string, maxPieces int) []byte {
	switch zzverif.IntRange(tag+"kind", 0, 4) {
	case 0:
		return jString(tag, maxPieces)
	case 1:
		return vNumber(tag, 2, 2, true).text
	case 2:
		return []byte("true")
	case 3:
		return []byte("false")
	default:
		return []byte("null")
	}
}

func jGap(tag string) []byte {
	n := zzverif.IntRange(tag+"gap", 0, 1)
	g := make([]byte, n)
	for i := range g {
		g[i] = zzverif.OneOf(tag+"w", " \t\n\r")
	}
	return g
}

func jSkeleton() []byte {
	mp := zzverif.Bound("pieces", 1, 2)
	switch zzverif.IntRange("skeleton", 0, 7) {
	case 0:
		return vJoin(jGap("g0."), jScalar("v.", mp), jGap("g1."))
	case 1:
		return vJoin([]byte("{"), jGap("g0."), jString("k.", mp), jGap("g1."), []byte(":"), jScalar("v.", 1), []byte("}"))
	case 2:
		return vJoin([]byte("["), jScalar("v.", 1), []byte(","), jGap("g0."), jString("w.", 1), []byte("]"))
	case 3:
		k1 := jString("k.", 1)
		k2 := jString("l.", 1)
		a, _ := jDecode(k1)
		b, _ := jDecode(k2)
		zzverif.Assume(!jSame(a, b)) // duplicate keys are outside the property
		return vJoin([]byte("{"), k1, []byte(":1,"), jGap("g0."), k2, []byte(`:"x"}`))
	case 4:
		return vJoin([]byte(`{"a":[`), jScalar("v.", 1), []byte(`],"b":{`), jString("k.", 1), []byte(`:null}}`))
	case 5:
		return []byte(" [ [ ] , { } , [ { } ] ] ")
	case 6:
		return vJoin([]byte("{"), jGap("g0."), []byte("}"))
	default:
		return vJoin([]byte("["), jGap("g0."), []byte("]"))
	}
}

// VerifC03_PlainJSON: every JSON text of the skeleton family (no exponent
// numbers, no duplicate keys) is accepted as a schema; Example() denotes the
// same value (same keys incl. escapes, same order, same literals); GetAST() is
// the same tree with decoded keys and string values.
func VerifC03_PlainJSON() {
	zzverif.Expect("checked")
	text := jSkeleton()
	want, ok := jDecode(text)
	zzverif.Assume(ok) // the skeletons are JSON by construction; this only drops \u holes that are not strings
	s := New("s", text)
	err := s.Check()
	zzverif.Assert(err == nil, "plain JSON is accepted as a schema")
	if err != nil {
		return
	}
	zzverif.Reach("checked")
	ex, eerr := s.Example()
	zzverif.Assert(eerr == nil, "Example() succeeds")
	got, gok := jDecode(ex)
	zzverif.Assert(gok, "Example() is RFC 8259 JSON")
	zzverif.Assert(jSame(got, want), "Example() denotes the same value as the schema text")
	ast, aerr := s.GetAST()
	zzverif.Assert(aerr == nil, "GetAST() succeeds")
	zzverif.Assert(jSame(jFromAST(ast, nil), want), "GetAST() is the same tree with decoded keys and values")
}
