package jschema

import (
	schema "github.com/jsightapi/jsight-schema-core"
	"github.com/jsightapi/jsight-schema-core/zzverif"
	"github.com/jsightapi/jsight-schema-core/zzverif/zzjson"
)

// jFromAST flattens an AST into the same event list.
func jFromAST(n schema.ASTNode, out []zzjson.Ev) []zzjson.Ev {
	switch n.TokenType {
	case schema.TokenTypeObject:
		out = append(out, zzjson.Ev{'{', ""})
		for _, c := range n.Children {
			out = append(out, zzjson.Ev{'k', c.Key})
			out = jFromAST(c, out)
		}
		return append(out, zzjson.Ev{'}', ""})
	case schema.TokenTypeArray:
		out = append(out, zzjson.Ev{'[', ""})
		for _, c := range n.Children {
			out = jFromAST(c, out)
		}
		return append(out, zzjson.Ev{']', ""})
	case schema.TokenTypeString:
		return append(out, zzjson.Ev{'s', n.Value})
	case schema.TokenTypeNumber:
		return append(out, zzjson.Ev{'n', n.Value})
	case schema.TokenTypeBoolean:
		if n.Value == "true" {
			return append(out, zzjson.Ev{'t', ""})
		}
		return append(out, zzjson.Ev{'f', ""})
	case schema.TokenTypeNull:
		return append(out, zzjson.Ev{'z', ""})
	}
	return append(out, zzjson.Ev{'?', n.TokenType})
}

// ---- holes ----

// jPiece appends one string-content piece: a plain byte, a simple escape, a
// \u00XX escape with symbolic hex digits, a concrete multi-byte character or
// a concrete surrogate pair.
func jPiece(tag string, lit []byte) []byte {
	switch zzverif.IntRange(tag+"piece", 0, 4) {
	case 0:
		return append(lit, zzverif.OneOf(tag+"c", "a0 :,{[/#@\x7f|*"))
	case 1:
		return append(lit, '\\', zzverif.OneOf(tag+"e", "\"\\/bfnrt"))
	case 2:
		return append(lit, '\\', 'u', '0', '0', zzverif.OneOf(tag+"h", "0123456789abcdefABCDEF"), zzverif.OneOf(tag+"h", "0123456789abcdefABCDEF"))
	case 3:
		return append(lit, []string{"é", "€", "😀"}[zzverif.IntRange(tag+"utf8", 0, 2)]...)
	default:
		return append(lit, `😀`...)
	}
}

func jString(tag string, maxPieces int) []byte {
	lit := []byte{'"'}
	n := zzverif.IntRange(tag+"pieces", 0, maxPieces)
	for i := 0; i < n; i++ {
		lit = jPiece(tag, lit)
	}
	return append(lit, '"')
}

func jScalar(tag string, maxPieces int) []byte {
	switch zzverif.IntRange(tag+"kind", 0, 4) {
	case 0:
		return jString(tag, maxPieces)
	case 1:
		return vNumber(tag, 2, 2, true).text
	case 2:
		return []byte("true")
	case 3:
		return []byte("false")
	default:
		return []byte("null")
	}
}

func jGap(tag string) []byte {
	n := zzverif.IntRange(tag+"gap", 0, 1)
	g := make([]byte, n)
	for i := range g {
		g[i] = zzverif.OneOf(tag+"w", " \t\n\r")
	}
	return g
}

// jGapAfterComma: the blank run after a separator: nothing, one blank, or
// two characters (CRLF, an empty line, LF + indentation).
func jGapAfterComma(tag string) []byte {
	return []byte([]string{"", " ", "\n", "\r\n", "\n\n", "\n\t", "\r\r"}[zzverif.IntRange(tag+"gap", 0, 6)])
}

func jSkeleton() []byte {
	mp := zzverif.Bound("pieces", 1, 2)
	switch zzverif.IntRange("skeleton", 0, 7) {
	case 0:
		return vJoin(jGap("g0."), jScalar("v.", mp), jGap("g1."))
	case 1:
		return vJoin([]byte("{"), jGap("g0."), jString("k.", 1), jGap("g1."), []byte(":"), jScalar("v.", 1), []byte("}"))
	case 2:
		return vJoin([]byte("["), jScalar("v.", 1), []byte(","), jGapAfterComma("g0."), jString("w.", 1), []byte("]"))
	case 3:
		k1 := jString("k.", 1)
		k2 := jString("l.", 1)
		a, _ := zzjson.Decode(k1)
		b, _ := zzjson.Decode(k2)
		zzverif.Assume(!zzjson.Same(a, b)) // duplicate keys are outside the property
		return vJoin([]byte("{"), k1, []byte(":1,"), jGapAfterComma("g0."), k2, []byte(`:"x"}`))
	case 4:
		return vJoin([]byte(`{"a":[`), jScalar("v.", 1), []byte(`],"b":{`), jString("k.", 1), []byte(`:null}}`))
	case 5:
		return []byte(" [ [ ] , { } , [ { } ] ] ")
	case 6:
		return vJoin([]byte("{"), jGap("g0."), []byte("}"))
	default:
		return vJoin([]byte("["), jGap("g0."), []byte("]"))
	}
}

// VerifC03_PlainJSON: every JSON text of the skeleton family (no exponent
// numbers, no duplicate keys) is accepted as a schema; Example() denotes the
// same value (same keys incl. escapes, same order, same literals); GetAST() is
// the same tree with decoded keys and string values.
func VerifC03_PlainJSON() {
	zzverif.Expect("checked")
	text := jSkeleton()
	want, ok := zzjson.Decode(text)
	zzverif.Assume(ok) // the skeletons are JSON by construction; this only drops \u holes that are not strings
	s := New("s", text)
	err := s.Check()
	zzverif.Assert(err == nil, "plain JSON is accepted as a schema")
	if err != nil {
		return
	}
	zzverif.Reach("checked")
	ex, eerr := s.Example()
	zzverif.Assert(eerr == nil, "Example() succeeds")
	got, gok := zzjson.Decode(ex)
	zzverif.Assert(gok, "Example() is RFC 8259 JSON")
	zzverif.Assert(zzjson.Same(got, want), "Example() denotes the same value as the schema text")
	ast, aerr := s.GetAST()
	zzverif.Assert(aerr == nil, "GetAST() succeeds")
	zzverif.Assert(zzjson.Same(jFromAST(ast, nil), want), "GetAST() is the same tree with decoded keys and values")
}
