package constraint

import (
	"github.com/jsightapi/jsight-schema-core/bytes"
	"github.com/jsightapi/jsight-schema-core/zzverif"
)

// VerifC13_PrecisionValidate: the precision constraint - the consumer of the
// number's fraction length - on literals with and without exponents (the
// schema language itself does not admit exponents in examples, the constraint
// API does): refused iff the value has more significant fraction digits than
// the precision allows.
func VerifC13_PrecisionValidate() {
	zzverif.Expect("accepted", "refused")
	table := []struct {
		lit string
		sig int
	}{{"125e-3", 3}, {"1E-5", 5}, {"1.5e-1", 2}, {"1.50e-1", 2}, {"15e1", 0}, {"1.5e1", 0}, {"1.25e1", 1}, {"120e-2", 1}, {"2e-1", 1},
		{"100e-2", 0}, {"0.5", 1}, {"12.3456e2", 2}, {"7", 0}, {"-0.250", 2}, {"1e-10", 10}}
	row := table[zzverif.IntRange("value", 0, len(table)-1)]
	p := zzverif.IntRange("precision", 1, 10)
	c := NewPrecision(bytes.NewBytes([]string{"", "1", "2", "3", "4", "5", "6", "7", "8", "9", "10"}[p]))
	refused := false
	func() {
		defer func() {
			if r := recover(); r != nil {
				refused = true
			}
		}()
		c.Validate(bytes.NewBytes(row.lit))
	}()
	zzverif.Assert(refused == (row.sig > p), "refused iff the significant fraction digits of the value exceed the precision")
	if refused {
		zzverif.Reach("refused")
	} else {
		zzverif.Reach("accepted")
	}
}
