package jschema

import (
	schema "github.com/jsightapi/jsight-schema-core"
	"github.com/jsightapi/jsight-schema-core/zzverif"
)

// ---- structural equality of ASTs ----

func vSameRule(a, b schema.RuleASTNode) bool {
	if a.TokenType != b.TokenType || a.Value != b.Value || a.Comment != b.Comment || a.Source != b.Source {
		return false
	}
	if len(a.Items) != len(b.Items) {
		return false
	}
	for i := range a.Items {
		if !vSameRule(a.Items[i], b.Items[i]) {
			return false
		}
	}
	return vSameRules(a.Properties, b.Properties)
}

type vRuleKV struct {
	k string
	v schema.RuleASTNode
}

func vRuleList(m *schema.RuleASTNodes) []vRuleKV {
	var out []vRuleKV
	if m == nil {
		return nil
	}
	m.EachSafe(func(k string, v schema.RuleASTNode) {
		out = append(out, vRuleKV{k, v})
	})
	return out
}

func vSameRules(a, b *schema.RuleASTNodes) bool {
	la, lb := vRuleList(a), vRuleList(b)
	if len(la) != len(lb) {
		return false
	}
	for i := range la {
		if la[i].k != lb[i].k || !vSameRule(la[i].v, lb[i].v) {
			return false
		}
	}
	return true
}

func vSameAST(a, b schema.ASTNode) bool {
	if a.TokenType != b.TokenType || a.SchemaType != b.SchemaType || a.Key != b.Key || a.Value != b.Value ||
		a.Comment != b.Comment || a.IsKeyShortcut != b.IsKeyShortcut || a.InheritedFrom != b.InheritedFrom {
		return false
	}
	if !vSameRules(a.Rules, b.Rules) || len(a.Children) != len(b.Children) {
		return false
	}
	for i := range a.Children {
		if !vSameAST(a.Children[i], b.Children[i]) {
			return false
		}
	}
	return true
}

// vRootTemplates: one complete schema per root kind, scalars symbolic.
func vRootTemplate() []byte {
	d := func(n string) byte { return zzverif.Digit(n) }
	s := func(n string) byte { return zzverif.OneOf(n, "ab .:/#") }
	switch zzverif.IntRange("root", 0, 18) {
	case 0:
		return []byte{'{', '"', 'a', '"', ':', ' ', d("d"), '}'}
	case 1:
		return []byte{'[', d("d"), ',', ' ', '"', s("s"), '"', ']'}
	case 2:
		return []byte{'"', s("s"), s("t"), '"'}
	case 3:
		return []byte{d("d"), '.', d("e")}
	case 4:
		return []byte("true")
	case 5:
		return vJoin([]byte{d("d")}, []byte(" // {min: 0} - note "), []byte{s("s")})
	case 6:
		return vJoin([]byte{d("d")}, []byte(" /* {min: 0}\n - note "), []byte{s("s")}, []byte(" */"))
	case 7:
		return []byte("@ref")
	case 8:
		return []byte("@a | @b")
	case 9:
		return vJoin([]byte("{\n  \"k\": "), []byte{d("d")}, []byte(" // note "), []byte{s("s")}, []byte("\n}"))
	case 10:
		return vJoin([]byte("[ // {minItems: 1}\n  "), []byte{d("d")}, []byte("\n]"))
	case 11:
		return []byte("null")
	case 12: // escapes inside an annotation string
		return []byte(`"AB" // {regex: "\u0041."}`)
	case 13: // escapes inside the value
		return vJoin([]byte(`"\u00e9\n`), []byte{s("s")}, []byte(`\\"`))
	case 14: // rules followed by a bare dash: an empty note
		return vJoin([]byte{d("d")}, []byte(" // {min: 0} -"))
	case 16: // an EMPTY user comment: a bare '#' at the end of the line
		return vJoin([]byte{d("d")}, []byte(" #"))
	case 17: // a user comment at the end of the schema's last line
		return vJoin([]byte("{\"a\": "), []byte{d("d")}, []byte("} # c"), []byte{s("s")})
	case 18: // a user comment after an annotation
		return vJoin([]byte{d("d")}, []byte(" // {min: 0} # "), []byte{s("s")})
	default: // a multi-line annotation with a bare dash
		return vJoin([]byte{d("d")}, []byte(" /* {min: 0} - */"))
	}
}

// VerifC15_Prefix: Len(S) <= len(S); S[:Len(S)] gets the same verdict and the
// same AST as S; Len is idempotent on that prefix.
func VerifC15_Prefix() {
	zzverif.Expect("accepted", "rejected")
	S := vRootTemplate()
	n, lerr := New("s", S).Len()
	zzverif.Assert(lerr == nil, "Len() succeeds on a complete schema")
	zzverif.Assert(int(n) <= len(S), "Len() never exceeds the text")
	if lerr != nil || int(n) > len(S) {
		return
	}
	P := S[:n]
	full := New("s", S)
	pre := New("s", P)
	e1, e2 := full.Check(), pre.Check()
	zzverif.Assert((e1 == nil) == (e2 == nil), "the prefix S[:Len(S)] gets the same verdict as S")
	if e1 == nil && e2 == nil {
		zzverif.Reach("accepted")
		a1, _ := full.GetAST()
		a2, _ := pre.GetAST()
		zzverif.Assert(vSameAST(a1, a2), "the prefix has the same AST")
	} else {
		zzverif.Reach("rejected")
		zzverif.Assert(vErrCode(e1) == vErrCode(e2), "the prefix is rejected with the same code")
	}
	n2, lerr2 := New("s", P).Len()
	zzverif.Assert(lerr2 == nil && n2 == n, "Len() is idempotent on the prefix")
}

// VerifC15_Follow: a complete schema followed, on a new line, by arbitrary
// text that does not start with '/' or '#': Len of the combination is Len(S).
func VerifC15_Follow() {
	zzverif.Expect("same")
	S := vRootTemplate()
	n, lerr := New("s", S).Len()
	zzverif.Assume(lerr == nil)
	nl := []string{"\n", "\r", "\r\n"}[zzverif.IntRange("nl", 0, 2)]
	// the follow-up text: optional indentation, then a first character that is
	// not a blank, not '/' and not '#', then anything
	indent := []string{"", " ", "\t", "\n"}[zzverif.IntRange("indent", 0, 3)]
	c := zzverif.Byte("first")
	zzverif.Assume(c != '/' && c != '#' && c != ' ' && c != '\t' && c != '\n' && c != '\r')
	k := zzverif.IntRange("restLen", 0, zzverif.Bound("rest", 1, 2))
	rest := zzverif.Bytes("rest", k)
	// blanks may trail the schema on its last line
	trail := []string{"", " ", "\t "}[zzverif.IntRange("trail", 0, 2)]
	T := vJoin(S, []byte(trail), []byte(nl), []byte(indent), []byte{c}, rest)
	m, merr := New("t", T).Len()
	zzverif.Assert(merr == nil, "Len() of the combined text succeeds")
	zzverif.Assert(m == n, "what follows on a new line never moves the boundary")
	zzverif.Reach("same")
}

// VerifC15_LenAfterLoad: Len() does not depend on what was called before on
// the same object (Check, GetAST, Example ...), also for texts with leading
// and trailing blanks.
func VerifC15_LenAfterLoad() {
	zzverif.Expect("same")
	lead := []string{"", " ", "\n", "\t \n"}[zzverif.IntRange("lead", 0, 3)]
	tail := []string{"", " ", "\n"}[zzverif.IntRange("tail", 0, 2)]
	S := vJoin([]byte(lead), vRootTemplate(), []byte(tail))
	n1, e1 := New("s", S).Len()
	s := New("s", S)
	switch zzverif.IntRange("before", 0, 3) {
	case 0:
		_ = s.Check()
	case 1:
		_, _ = s.GetAST()
	case 2:
		_, _ = s.Example()
	default:
		_, _ = s.UsedUserTypes()
	}
	n2, e2 := s.Len()
	zzverif.Assert((e1 == nil) == (e2 == nil) && n1 == n2, "Len() is the same before and after the schema was loaded")
	zzverif.Reach("same")
}
