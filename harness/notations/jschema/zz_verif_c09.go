package jschema

import (
	"github.com/jsightapi/jsight-schema-core/kit"
	"github.com/jsightapi/jsight-schema-core/rules/enum"
	"github.com/jsightapi/jsight-schema-core/zzverif"
)

// dObs is everything a caller can observe from one processing of a project.
type dObs struct {
	code    int
	msg     string
	index   uint
	badType string
	lenV    uint
	example string
	used    []string
	astOK   bool
}

func dObserve(s *JSchema) dObs {
	var o dObs
	err := s.Check()
	if err != nil {
		o.code = int(vErrCode(err))
		if je, ok := err.(kit.JSchemaError); ok {
			o.msg, o.index, o.badType = je.Message(), je.Index(), je.IncorrectUserType()
		} else {
			o.msg = err.Error()
		}
		return o
	}
	ex, _ := s.Example()
	o.example = string(ex)
	o.used, _ = s.UsedUserTypes()
	o.lenV, _ = s.Len()
	return o
}

func dSame(a, b dObs) bool {
	if a.code != b.code || a.index != b.index || a.badType != b.badType || a.lenV != b.lenV {
		return false
	}
	if !(zzverif.Opaque(a.msg) || zzverif.Opaque(b.msg)) && a.msg != b.msg {
		return false
	}
	return a.example == b.example && vSameStrings(a.used, b.used)
}

// dProject builds root + types; broken types depend on symbolic digits.
type dType struct {
	name, body string
}

func dTypes() (root string, ts []dType) {
	d1 := string([]byte{zzverif.Digit("d1")})
	d2 := string([]byte{zzverif.Digit("d2")})
	d3 := string([]byte{zzverif.Digit("d3")})
	// names that differ only in letter case must not be confused or tie
	root = `{"a": @item, "b": @Item, "c": @c}`
	ts = []dType{
		{"@item", d1 + ` // {min: 5}`},                                         // broken iff d1 < 5 (constraint violation)
		{"@Item", `"xy" // {minLength: ` + d2 + `}`},                           // broken iff d2 > 2 (string length violation)
		{"@c", d3 + ` // {or: [{type: "integer", min: 5}, {type: "string"}]}`}, // broken iff d3 < 5, through an unnamed rule-set type
	}
	return
}

func dBuild(root string, ts []dType, order []int) *JSchema {
	s := New("root", root)
	for _, i := range order {
		_ = s.AddType(ts[i].name, New(ts[i].name, ts[i].body))
	}
	return s
}

// VerifC09_MapOrder: the same project processed under two modelled map
// iteration orders gives the same observable result (which of several broken
// types is reported, message, position, example, used types ...). The solver
// decides the equality for all digit values at once.
func VerifC09_MapOrder() {
	zzverif.Expect("accepted", "rejected")
	root, ts := dTypes()
	other := zzverif.IntRange("order", 1, zzverif.Bound("orders", 3, 5))
	zzverif.SetMapOrder(0)
	o1 := dObserve(dBuild(root, ts, []int{0, 1, 2}))
	zzverif.SetMapOrder(other)
	o2 := dObserve(dBuild(root, ts, []int{0, 1, 2}))
	zzverif.SetMapOrder(0)
	zzverif.Assert(dSame(o1, o2), "same observable result under every map iteration order")
	if o1.code == 0 {
		zzverif.Reach("accepted")
	} else {
		zzverif.Reach("rejected")
	}
}

// VerifC09_RegistrationOrder: every permutation of the AddType calls.
func VerifC09_RegistrationOrder() {
	zzverif.Expect("accepted", "rejected")
	root, ts := dTypes()
	perms := [][]int{{0, 1, 2}, {0, 2, 1}, {1, 0, 2}, {1, 2, 0}, {2, 0, 1}, {2, 1, 0}}
	p := perms[zzverif.IntRange("perm", 1, 5)]
	o1 := dObserve(dBuild(root, ts, perms[0]))
	o2 := dObserve(dBuild(root, ts, p))
	zzverif.Assert(dSame(o1, o2), "same observable result for every registration order")
	if o1.code == 0 {
		zzverif.Reach("accepted")
	} else {
		zzverif.Reach("rejected")
	}
}

// VerifC09_Repetition: processing the same input twice (fresh objects, hence
// different heap addresses - the engine gives every %p a fresh symbolic
// address) yields identical observables: nothing observable may mention an address.
func VerifC09_Repetition() {
	zzverif.Expect("accepted", "rejected")
	root, ts := dTypes()
	o1 := dObserve(dBuild(root, ts, []int{0, 1, 2}))
	o2 := dObserve(dBuild(root, ts, []int{0, 1, 2}))
	zzverif.Assert(dSame(o1, o2), "same observable result on repetition (independent of heap addresses)")
	if o1.code == 0 {
		zzverif.Reach("accepted")
	} else {
		zzverif.Reach("rejected")
	}
}

// VerifC09_EnumRule: an enum rule with two entries under two map orders.
func VerifC09_EnumRule() {
	zzverif.Expect("accepted", "rejected")
	v1 := vEnumScalar("1.")
	v2 := vEnumScalar("2.")
	text := vJoin([]byte("["), v1, []byte(", "), v2, []byte("]"))
	obs := func() (int, string) {
		e := enum.New("e", text)
		err := e.Check()
		if err != nil {
			return int(vErrCode(err)), ""
		}
		vals, _ := e.Values()
		s := ""
		for _, v := range vals {
			s += v.Value.String() + ":" + string(v.Type) + ";"
		}
		return 0, s
	}
	zzverif.SetMapOrder(0)
	c1, s1 := obs()
	zzverif.SetMapOrder(1)
	c2, s2 := obs()
	zzverif.SetMapOrder(0)
	zzverif.Assert(c1 == c2 && s1 == s2, "same verdict and values under every map iteration order")
	if c1 == 0 {
		zzverif.Reach("accepted")
	} else {
		zzverif.Reach("rejected")
	}
}

// VerifC09_SeveralOffendingRules: a node that carries several rules its type
// does not allow: which one the diagnostic names must not depend on map order.
func VerifC09_SeveralOffendingRules() {
	zzverif.Expect("rejected")
	typ := []string{"email", "uri", "date", "uuid", "datetime"}[zzverif.IntRange("type", 0, 4)]
	val := map[string]string{"email": "a@b.cc", "uri": "http://a.b/c", "date": "2021-01-08", "uuid": "550e8400-e29b-41d4-a716-446655440000", "datetime": "2021-01-08T12:50:45+06:00"}[typ]
	rules := [][]string{{"minLength: 1", "maxLength: 99"}, {"maxLength: 99", "minLength: 1"}, {"minLength: 1", "regex: \".\""}, {"regex: \".\"", "maxLength: 99", "minLength: 1"}}[zzverif.IntRange("rules", 0, 3)]
	text := `"` + val + `" // {type: "` + typ + `"`
	for _, r := range rules {
		text += ", " + r
	}
	text += "}"
	if zzverif.Bool("integerWithStringRules") {
		// an integer carrying string rules: refused later, by the checker
		text = "1 // {" + rules[0]
		for _, r := range rules[1:] {
			text += ", " + r
		}
		text += "}"
	}
	// the offending node stands in the schema itself, or is inherited through
	// allOf (the compiler copies the inherited properties with their rules)
	inherited := zzverif.Bool("inherited")
	mk := func() *JSchema {
		if !inherited {
			return New("s", text)
		}
		r := New("s", "{ // {allOf: \"@p\"}\n  \"own\": 1\n}")
		_ = r.AddType("@p", New("@p", "{\n  \"a\": "+text+"\n}"))
		return r
	}
	other := zzverif.IntRange("order", 1, 3)
	zzverif.SetMapOrder(0)
	o1 := dObserve(mk())
	zzverif.SetMapOrder(other)
	o2 := dObserve(mk())
	zzverif.SetMapOrder(0)
	zzverif.Assert(dSame(o1, o2), "same diagnostic under every map iteration order")
	if o1.code != 0 {
		zzverif.Reach("rejected")
	}
}

// VerifC09_RepeatedCalls: calling the same operation again on the same object
// gives the same answer - three times in a row, also when Example() fails
// inside a referenced type.
func VerifC09_RepeatedCalls() {
	zzverif.Expect("example-ok", "example-fails")
	d := string([]byte{zzverif.Digit("d")})
	var s *JSchema
	if zzverif.Bool("failing") {
		s = New("root", `{"x": @A, "y": `+d+`}`)
		_ = s.AddType("@A", New("@A", `{} // {or: [{type: "object"}, {type: "string"}]}`))
	} else {
		s = New("root", `{"x": @A, "y": [`+d+`, @A]}`)
		_ = s.AddType("@A", New("@A", `{"r": `+d+`}`))
	}
	c1 := vErrCode(s.Check())
	type res struct {
		ex   string
		code int
	}
	var rs []res
	for i := 0; i < 3; i++ {
		ex, err := s.Example()
		rs = append(rs, res{string(ex), int(vErrCode(err))})
		zzverif.Assert(vErrCode(s.Check()) == c1, "Check() repeats its answer")
	}
	zzverif.Assert(rs[0] == rs[1] && rs[1] == rs[2], "Example() repeats its answer on the same object")
	if rs[0].code == 0 {
		zzverif.Reach("example-ok")
	} else {
		zzverif.Reach("example-fails")
	}
}

// ZzC09Pair hands two processings of the same three-type project to the
// harness of package jsoac (OpenAPI Schema Objects): under two map orders,
// two registration orders, or simply twice. before2 is called between the two
// builds (the caller switches the map order there).
func ZzC09Pair(perm int, before2 func()) (*JSchema, *JSchema, []string) {
	root, ts := dTypes()
	perms := [][]int{{0, 1, 2}, {0, 2, 1}, {1, 0, 2}, {1, 2, 0}, {2, 0, 1}, {2, 1, 0}}
	s1 := dBuild(root, ts, perms[0])
	e1 := s1.Check()
	before2()
	s2 := dBuild(root, ts, perms[perm])
	e2 := s2.Check()
	if e1 != nil || e2 != nil {
		return nil, nil, nil
	}
	return s1, s2, []string{ts[0].name, ts[1].name, ts[2].name}
}

// VerifC09_BrokenAllOfTypes: several registered types whose allOf is broken
// (non-object or missing parent), none of them reached from the root: which
// one is reported, with which code, must not depend on map iteration order or
// on the order of the AddType calls.
func VerifC09_BrokenAllOfTypes() {
	zzverif.Expect("rejected")
	bodies := []string{"{ // {allOf: \"@n\"}\n}", "{ // {allOf: \"@s\"}\n}", "{ // {allOf: \"@missing\"}\n}", "{ // {allOf: [\"@o\", \"@n\"]}\n}"}
	names := []string{"@p", "@q", "@r"}
	var ts []dType
	for i, n := range names {
		ts = append(ts, dType{n, bodies[zzverif.IntRange("body", 0, len(bodies)-1)]})
		_ = i
	}
	ts = append(ts, dType{"@n", `1`}, dType{"@s", `"s"`}, dType{"@o", `{"k": 1}`})
	perms := [][]int{{0, 1, 2, 3, 4, 5}, {2, 1, 0, 3, 4, 5}, {5, 4, 3, 2, 1, 0}, {1, 2, 0, 5, 3, 4}}
	order := zzverif.IntRange("order", 0, 3)
	perm := perms[zzverif.IntRange("perm", 0, 3)]
	zzverif.SetMapOrder(0)
	o1 := dObserve(dBuild(`1`, ts, perms[0]))
	zzverif.SetMapOrder(order)
	o2 := dObserve(dBuild(`1`, ts, perm))
	zzverif.SetMapOrder(0)
	zzverif.Assert(dSame(o1, o2), "same diagnostic for every map iteration order and registration order")
	if o1.code != 0 {
		zzverif.Reach("rejected")
	}
}
