package jschema

import (
	"regexp"

	"github.com/jsightapi/jsight-schema-core/errs"
	"github.com/jsightapi/jsight-schema-core/kit"
	"github.com/jsightapi/jsight-schema-core/zzverif"
)

// vNum is a decimal literal hole: [-] (0 | d | d d) [. f [f]]
type vNum struct {
	text    []byte
	neg     bool
	intD    []byte
	fraD    []byte
	isFloat bool
}

// vNumber builds a number literal with up to maxInt integer digits and up to
// maxFra fraction digits, every digit symbolic, sign symbolic when signed.
func vNumber(tag string, maxInt, maxFra int, signed bool) vNum {
	var n vNum
	if signed && zzverif.Bool(tag+"neg") {
		n.neg = true
		n.text = append(n.text, '-')
	}
	il := zzverif.IntRange(tag+"intLen", 1, maxInt)
	for i := 0; i < il; i++ {
		d := zzverif.Digit(tag + "i")
		if i == 0 && il > 1 {
			zzverif.Assume(d != '0') // no superfluous leading zero
		}
		n.intD = append(n.intD, d)
	}
	n.text = append(n.text, n.intD...)
	fl := zzverif.IntRange(tag+"fraLen", 0, maxFra)
	if fl > 0 {
		n.isFloat = true
		n.text = append(n.text, '.')
		for i := 0; i < fl; i++ {
			n.fraD = append(n.fraD, zzverif.Digit(tag+"f"))
		}
		n.text = append(n.text, n.fraD...)
	}
	return n
}

// scaled returns the value times 10^k as an exact integer (k >= len(fraD)).
func (n vNum) scaled(k int) zzverif.Int {
	d := append(append([]byte{}, n.intD...), n.fraD...)
	v := zzverif.IntOfDigits(d).MulPow10(k - len(n.fraD))
	if n.neg {
		return v.Neg()
	}
	return v
}

func vMaxInt(a, b int) int {
	if a > b {
		return a
	}
	return b
}

// vCmp: sign of (a - b) as exact rationals.
func vCmp(a, b vNum) (lt, eq bool) {
	k := vMaxInt(len(a.fraD), len(b.fraD))
	A, B := a.scaled(k), b.scaled(k)
	return A.Lt(B), A.Eq(B)
}

func vErrCode(err error) errs.Code {
	switch e := err.(type) {
	case kit.JSchemaError:
		return e.Code()
	case *errs.Err:
		return e.Code()
	}
	return 0
}

func vJoin(parts ...[]byte) []byte {
	var r []byte
	for _, p := range parts {
		r = append(r, p...)
	}
	return r
}

// VerifC01_MinMax: `V // {min: B}` / `{max: B}` with optional exclusivity, for
// all signed decimals V, B with up to 2 integer and 2 (quick) / 3 (thorough)
// fraction digits: accepted iff V satisfies the bound exactly (value == bound,
// last-fraction-digit differences, trailing zeros, negatives, -0 included).
func VerifC01_MinMax() {
	zzverif.Expect("accepted", "rejected", "on-bound")
	// thorough: three fraction digits on the value, two on the bound (with three
	// on both, 153 exact-arithmetic obligations stayed `unknown` at the 60 s limit)
	mf := zzverif.Bound("fra", 2, 3)
	v := vNumber("v.", 2, mf, true)
	b := vNumber("b.", 2, 2, true)
	isMin := zzverif.Bool("isMin")
	excl := zzverif.IntRange("exclusive", 0, 2) // 0 absent, 1 true, 2 false
	rule := "min"
	exName := "exclusiveMinimum"
	if !isMin {
		rule, exName = "max", "exclusiveMaximum"
	}
	text := vJoin(v.text, []byte(" // {"+rule+": "), b.text)
	switch excl {
	case 1:
		text = vJoin(text, []byte(", "+exName+": true"))
	case 2:
		text = vJoin(text, []byte(", "+exName+": false"))
	}
	text = append(text, '}')
	lt, eq := vCmp(v, b)
	var want bool
	switch {
	case isMin && excl == 1:
		want = !lt && !eq
	case isMin:
		want = !lt
	case excl == 1:
		want = lt
	default:
		want = lt || eq
	}
	if eq {
		zzverif.Reach("on-bound")
	}
	err := New("s", text).Check()
	zzverif.Assert((err == nil) == want, "accepted iff the value satisfies min/max with the written exclusivity")
	if err == nil {
		zzverif.Reach("accepted")
	} else {
		zzverif.Reach("rejected")
		zzverif.Assert(vErrCode(err) == errs.ErrConstraintValidation, "rejected with the constraint-violation code")
	}
}

// VerifC01_MinMaxPair: `V // {min: A, max: B [, exclusiveMinimum: e1] [, exclusiveMaximum: e2]}`:
// accepted iff A <= V <= B with each bound strict when its exclusivity is true.
func VerifC01_MinMaxPair() { vMinMaxPair(1, false) }

// VerifC01_MinMaxPairExclusive: the same with both exclusivity rules present
// or absent in every combination (integers, so that the run stays short).
func VerifC01_MinMaxPairExclusive() { vMinMaxPair(0, true) }

func vMinMaxPair(frac int, exclusive bool) {
	zzverif.Expect("accepted", "rejected")
	v := vNumber("v.", 1, frac, true)
	a := vNumber("a.", 1, frac, true)
	b := vNumber("b.", 1, frac, true)
	text := vJoin(v.text, []byte(" // {min: "), a.text, []byte(", max: "), b.text)
	exMin, exMax := 0, 0 // 0 absent, 1 true, 2 false
	if exclusive {
		exMin = zzverif.IntRange("exMin", 0, 2)
		exMax = zzverif.IntRange("exMax", 0, 2)
	}
	if exMin != 0 {
		text = vJoin(text, []byte(", exclusiveMinimum: "), []byte([]string{"", "true", "false"}[exMin]))
	}
	if exMax != 0 {
		text = vJoin(text, []byte(", exclusiveMaximum: "), []byte([]string{"", "true", "false"}[exMax]))
	}
	text = append(text, '}')
	ltA, eqA := vCmp(v, a)
	ltB, eqB := vCmp(v, b)
	okMin := !ltA && !(eqA && exMin == 1)
	okMax := ltB || (eqB && exMax != 1)
	want := okMin && okMax
	err := New("s", text).Check()
	if err != nil && vErrCode(err) != errs.ErrConstraintValidation {
		// the pair itself can be refused (min > max); that is not a value reason
		zzverif.Assert(!want || true, "non-value refusal")
		zzverif.Reach("rejected")
		return
	}
	zzverif.Assert((err == nil) == want, "accepted iff min <= value <= max with the written exclusivities")
	if err == nil {
		zzverif.Reach("accepted")
	} else {
		zzverif.Reach("rejected")
	}
}

// VerifC01_Precision: `V // {precision: P}` for floats V with 1-3 fraction
// digits: accepted iff the number of significant fraction digits is <= P.
func VerifC01_Precision() {
	zzverif.Expect("accepted", "rejected")
	var v vNum
	v.intD = []byte{zzverif.Digit("i")}
	fl := zzverif.IntRange("fraLen", 1, 3)
	for i := 0; i < fl; i++ {
		v.fraD = append(v.fraD, zzverif.Digit("f"))
	}
	p := zzverif.Digit("p")
	zzverif.Assume(p != '0') // precision 0 is refused as a rule value (not a value reason)
	text := vJoin(v.intD, []byte("."), v.fraD, []byte(" // {precision: "), []byte{p}, []byte("}"))
	sig := len(v.fraD)
	for sig > 0 && v.fraD[sig-1] == '0' {
		sig--
	}
	want := sig <= int(p-'0')
	err := New("s", text).Check()
	zzverif.Assert((err == nil) == want, "accepted iff significant fraction digits <= precision")
	if err == nil {
		zzverif.Reach("accepted")
	} else {
		zzverif.Reach("rejected")
	}
}

// vStr is a string literal hole: 0..n content pieces, each a plain byte of the
// alphabet or a simple escape; decoded length is known by construction.
func vStr(tag string, n int) (lit []byte, decodedLen int) {
	lit = append(lit, '"')
	k := zzverif.IntRange(tag+"pieces", 0, n)
	for i := 0; i < k; i++ {
		if zzverif.Bool(tag + "esc") {
			lit = append(lit, '\\', zzverif.OneOf(tag+"e", "\"\\/bfnrt"))
		} else {
			lit = append(lit, zzverif.OneOf(tag+"c", "aZ09 .-_"))
		}
		decodedLen++
	}
	lit = append(lit, '"')
	return
}

// VerifC01_Length: `"s" // {minLength: N}` / `{maxLength: N}`: accepted iff
// the decoded length satisfies the limit (length == limit included).
func VerifC01_Length() {
	zzverif.Expect("accepted", "rejected", "on-limit")
	lit, dl := vStr("s.", zzverif.Bound("pieces", 3, 4))
	n := zzverif.Digit("n")
	isMin := zzverif.Bool("isMin")
	rule := "minLength"
	if !isMin {
		rule = "maxLength"
	}
	text := vJoin(lit, []byte(" // {"+rule+": "), []byte{n}, []byte("}"))
	lim := int(n - '0')
	want := dl >= lim
	if !isMin {
		want = dl <= lim
	}
	if dl == lim {
		zzverif.Reach("on-limit")
	}
	err := New("s", text).Check()
	zzverif.Assert((err == nil) == want, "accepted iff the decoded length satisfies minLength/maxLength")
	if err == nil {
		zzverif.Reach("accepted")
	} else {
		zzverif.Reach("rejected")
	}
}

// VerifC01_Items: `[ // {minItems: N}` with k items: accepted iff k satisfies the limit.
func VerifC01_Items() {
	zzverif.Expect("accepted", "rejected", "on-limit")
	k := zzverif.IntRange("items", 1, 3)
	n := zzverif.Digit("n")
	isMin := zzverif.Bool("isMin")
	rule := "minItems"
	if !isMin {
		rule = "maxItems"
	}
	text := []byte("[ // {" + rule + ": ")
	text = append(text, n, '}', '\n')
	for i := 0; i < k; i++ {
		if i > 0 {
			text = append(text, ',', '\n')
		}
		text = append(text, zzverif.Digit("item"))
	}
	text = append(text, '\n', ']')
	lim := int(n - '0')
	want := k >= lim
	if !isMin {
		want = k <= lim
	}
	if k == lim {
		zzverif.Reach("on-limit")
	}
	err := New("s", text).Check()
	zzverif.Assert((err == nil) == want, "accepted iff the item count satisfies minItems/maxItems")
	if err == nil {
		zzverif.Reach("accepted")
	} else {
		zzverif.Reach("rejected")
	}
}

// VerifC01_Or: `V // {or: [ALT1, {type: "integer", max: B}]}` where ALT1 is
// `{type: "integer", min: A}` or a rule set of ANOTHER JSON type (string,
// optionally nullable - it can never accept an integer): accepted iff some
// alternative accepts the value.
func VerifC01_Or() {
	zzverif.Expect("accepted", "rejected")
	v := vNumber("v.", 2, 0, true)
	a := vNumber("a.", 2, 0, true)
	b := vNumber("b.", 2, 0, true)
	alt := zzverif.IntRange("alt1", 0, 2)
	alt1 := vJoin([]byte(`{type: "integer", min: `), a.text, []byte(`}`))
	switch alt {
	case 1:
		alt1 = []byte(`{type: "string", nullable: true}`)
	case 2:
		alt1 = []byte(`{type: "string", minLength: 1}`)
	}
	text := vJoin(v.text, []byte(` // {or: [`), alt1, []byte(`, {type: "integer", max: `), b.text, []byte(`}]}`))
	ltA, _ := vCmp(v, a)
	ltB, eqB := vCmp(v, b)
	want := ltB || eqB
	if alt == 0 {
		want = want || !ltA
	}
	err := New("s", text).Check()
	zzverif.Assert((err == nil) == want, "accepted iff some `or` alternative accepts the value")
	if err == nil {
		zzverif.Reach("accepted")
	} else {
		zzverif.Reach("rejected")
	}
}

// VerifC01_TypeRef: @t = `V2 // {min: B}`; roots `V // {type: "@t"}` and
// `{"k": @t}`: accepted iff V2 >= B (the type's own example) and V >= B.
func VerifC01_TypeRef() {
	zzverif.Expect("accepted", "rejected")
	v := vNumber("v.", 2, 0, true)
	v2 := vNumber("w.", 2, 0, true)
	b := vNumber("b.", 2, 0, true)
	typ := vJoin(v2.text, []byte(" // {min: "), b.text, []byte("}"))
	asRule := zzverif.Bool("asRule")
	var root *JSchema
	if asRule {
		root = New("root", vJoin(v.text, []byte(` // {type: "@t"}`)))
	} else {
		root = New("root", `{"k": @t}`)
	}
	aerr := root.AddType("@t", New("@t", typ))
	zzverif.Assert(aerr == nil, "a syntactically valid type can be registered")
	lt2, _ := vCmp(v2, b)
	lt1, _ := vCmp(v, b)
	want := !lt2
	if asRule {
		want = want && !lt1
	}
	err := root.Check()
	zzverif.Assert((err == nil) == want, "accepted iff the type's own example and the referring value satisfy the type's rule")
	if err == nil {
		zzverif.Reach("accepted")
	} else {
		zzverif.Reach("rejected")
	}
}

// VerifC01_Enum: `V // {enum: [E1, E2]}`: accepted iff V is the same scalar as some entry.
func VerifC01_Enum() {
	zzverif.Expect("accepted", "rejected")
	x := vEnumScalar("x.")
	v1 := vEnumScalar("1.")
	v2 := vEnumScalar("2.")
	text := vJoin(x, []byte(" // {enum: ["), v1, []byte(", "), v2, []byte("]}"))
	same := func(a, b []byte) bool {
		as, bs := a[0] == '"', b[0] == '"'
		if as != bs {
			return false
		}
		if !as {
			return string(a) == string(b)
		}
		return string(vDecodeSimple(a)) == string(vDecodeSimple(b))
	}
	zzverif.Assume(!same(v1, v2)) // duplicate entries are refused (C17)
	want := same(x, v1) || same(x, v2)
	err := New("s", text).Check()
	zzverif.Assert((err == nil) == want, "accepted iff the value is one of the enum entries")
	if err == nil {
		zzverif.Reach("accepted")
	} else {
		zzverif.Reach("rejected")
	}
}

// vDecodeSimple decodes a string literal made of plain bytes and simple escapes.
func vDecodeSimple(lit []byte) []byte {
	var s []byte
	for i := 1; i < len(lit)-1; i++ {
		c := lit[i]
		if c != '\\' {
			s = append(s, c)
			continue
		}
		i++
		switch lit[i] {
		case 'b':
			s = append(s, '\b')
		case 'f':
			s = append(s, '\f')
		case 'n':
			s = append(s, '\n')
		case 'r':
			s = append(s, '\r')
		case 't':
			s = append(s, '\t')
		default:
			s = append(s, lit[i])
		}
	}
	return s
}

// VerifC01_TypesUnderAnyRoot: a registered type whose own example breaks its
// rule makes Check() fail whatever the root is - also an empty root, a root
// of blanks or of a comment only, and a root that does not refer to the type.
func VerifC01_TypesUnderAnyRoot() {
	zzverif.Expect("accepted", "rejected")
	v := vNumber("v.", 1, 1, true)
	b := vNumber("b.", 1, 1, true)
	typ := vJoin(v.text, []byte(" // {max: "), b.text, []byte("}"))
	roots := []string{"", " ", "\n", "# only a comment", `{"unrelated": true}`, `@t`}
	root := New("root", roots[zzverif.IntRange("root", 0, len(roots)-1)])
	aerr := root.AddType("@t", New("@t", typ))
	zzverif.Assert(aerr == nil, "a syntactically valid type can be registered")
	lt, eq := vCmp(v, b)
	err := root.Check()
	zzverif.Assert((err == nil) == (lt || eq), "every registered type's example is checked against its rules, under any root")
	if err == nil {
		zzverif.Reach("accepted")
	} else {
		zzverif.Reach("rejected")
	}
}

// VerifC01_Formats: `"candidate" // {type: "<format>"}` for the built-in
// string formats over a table of candidates that are clearly valid or clearly
// invalid under the documented meaning (e-mail address, absolute URI, calendar
// date, RFC 3339 date-time, UUID): accepted iff valid. The validators run the
// standard library as host code, so the candidates are concrete.
func VerifC01_Formats() {
	zzverif.Expect("accepted", "rejected")
	type cand struct {
		typ, text string
		ok        bool
	}
	table := []cand{
		{"email", "a@b.cc", true}, {"email", "first.last+tag@example.org", true}, {"email", "ab", false}, {"email", "", false},
		{"email", "a@", false}, {"email", "@b.cc", false}, {"email", " a@b.cc", false}, {"email", "<a@b.cc>", false}, {"email", "a b@c.dd", false},
		{"uri", "http://a.b/c", true}, {"uri", "https://example.org:8080/p?q=1#f", true}, {"uri", "ab", false}, {"uri", "", false}, {"uri", "http://a b/", false},
		{"date", "2021-01-08", true}, {"date", "2024-02-29", true}, {"date", "2021-02-29", false}, {"date", "2021-13-01", false}, {"date", "2021-1-8", false},
		{"date", "21-01-08", false}, {"date", "2021-01-08T00:00:00Z", false}, {"date", "", false},
		{"datetime", "2021-01-08T12:50:45+06:00", true}, {"datetime", "2021-01-08T12:50:45Z", true}, {"datetime", "2021-01-08", false},
		{"datetime", "2021-01-08 12:50:45", false}, {"datetime", "2021-01-08T25:00:00Z", false}, {"datetime", "", false},
		{"uuid", "550e8400-e29b-41d4-a716-446655440000", true}, {"uuid", "550E8400-E29B-41D4-A716-446655440000", true}, {"uuid", "550e8400", false},
		{"uuid", "550e8400-e29b-41d4-a716-44665544000g", false}, {"uuid", "", false},
		{"uuid", "{550e8400-e29b-41d4-a716-446655440000)", false}, {"uuid", "(550e8400-e29b-41d4-a716-446655440000}", false},
		{"uuid", "550e8400-e29b-41d4-a716-4466554400001", false}, {"uuid", "550e8400e29b-41d4-a716-446655440000", false},
	}
	c := table[zzverif.IntRange("candidate", 0, len(table)-1)]
	text := `"` + c.text + `" // {type: "` + c.typ + `"}`
	where := zzverif.IntRange("where", 0, 2)
	var s *JSchema
	switch where {
	case 0:
		s = New("s", text)
	case 1: // as a member
		s = New("s", "{\n  \"m\": "+text+"\n}")
	default: // in a registered type
		s = New("s", `{"m": @t}`)
		_ = s.AddType("@t", New("@t", text))
	}
	err := s.Check()
	zzverif.Assert((err == nil) == c.ok, "a format-typed string is accepted iff it is a value of that format")
	if err == nil {
		zzverif.Reach("accepted")
	} else {
		zzverif.Reach("rejected")
	}
}

// VerifC01_ConstNullable: a scalar under `type` with every combination of
// const and nullable: accepted iff the value has the type - const and nullable
// never reject the example, and a null example without `nullable: true` is
// rejected.
func VerifC01_ConstNullable() {
	zzverif.Expect("accepted", "rejected")
	v := vNumber("v.", 1, 1, true)
	typ := []string{"integer", "float", "string", "boolean"}[zzverif.IntRange("type", 0, 3)]
	nullable := zzverif.IntRange("nullable", 0, 2) // absent, true, false
	konst := zzverif.IntRange("const", 0, 2)
	value := [][]byte{[]byte("null"), v.text, []byte(`"s"`), []byte("true")}[zzverif.IntRange("value", 0, 3)]
	rules := `type: "` + typ + `"`
	if nullable != 0 {
		rules += ", nullable: " + []string{"", "true", "false"}[nullable]
	}
	if konst != 0 {
		rules += ", const: " + []string{"", "true", "false"}[konst]
	}
	text := vJoin(value, []byte(" // {"+rules+"}"))
	isNull := string(value) == "null"
	var fits bool
	switch typ {
	case "integer":
		fits = !isNull && value[0] != '"' && value[0] != 't' && !v.isFloat
	case "float":
		fits = !isNull && value[0] != '"' && value[0] != 't'
	case "string":
		fits = value[0] == '"'
	default:
		fits = value[0] == 't'
	}
	// two combinations are left open (the documentation does not settle
	// them): a null EXAMPLE under `nullable: true` with another type, and an
	// integer literal under type "float"
	zzverif.Assume(!(isNull && nullable == 1))
	zzverif.Assume(!(typ == "float" && !isNull && value[0] != '"' && value[0] != 't' && !v.isFloat))
	want := fits
	err := New("s", text).Check()
	zzverif.Assert((err == nil) == want, "accepted iff the value has the type; const and nullable never reject a value of the type")
	if err == nil {
		zzverif.Reach("accepted")
	} else {
		zzverif.Reach("rejected")
	}
}

// VerifC01_Regex: `"candidate" // {regex: "pattern"}` over concrete patterns
// and candidates (JSON spelling / decoded value): accepted iff the pattern
// matches the DECODED string (the regexp engine is host code on both sides;
// the subject is the plumbing: unquoting of the pattern and of the value).
func VerifC01_Regex() {
	zzverif.Expect("accepted", "rejected")
	// pattern: spelling inside the annotation string / the pattern itself
	pats := [][2]string{{"^[a-c]+$", "^[a-c]+$"}, {"^x\\\\d$", "^x\\d$"}, {"^A$", "^A$"}, {"^\\u0041$", "^A$"}, {"^\\\"$", "^\"$"}, {"b", "b"}, {"^$", "^$"}, {"^a\\\\.b$", "^a\\.b$"}, {"^\\\\\\\\$", "^\\\\$"}}
	cands := [][2]string{{"abc", "abc"}, {"x1", "x1"}, {"A", "A"}, {"\\u0041", "A"}, {"\\\"", "\""}, {"", ""}, {"a.b", "a.b"}, {"axb", "axb"}, {"\\\\", "\\"}, {"\\n", "\n"}, {"abd", "abd"}}
	p := pats[zzverif.IntRange("pattern", 0, len(pats)-1)]
	c := cands[zzverif.IntRange("candidate", 0, len(cands)-1)]
	text := `"` + c[0] + `" // {regex: "` + p[0] + `"}`
	want := regexp.MustCompile(p[1]).MatchString(c[1])
	err := New("s", text).Check()
	zzverif.Assert((err == nil) == want, "accepted iff the pattern matches the decoded string")
	if err == nil {
		zzverif.Reach("accepted")
	} else {
		zzverif.Reach("rejected")
	}
}

// VerifC01_OrOfTypes: `V // {or: ["@t", "@u"]}` (in both orders) where @t is
// an integer with `min: A`, @v one with `max: B` and @u the choice `@t | @v`,
// so that a type name occurs twice among the flattened alternatives: accepted
// iff V >= A or V <= B.
func VerifC01_OrOfTypes() {
	zzverif.Expect("accepted", "rejected")
	v := zzverif.Digit("v")
	a := zzverif.Digit("a")
	b := zzverif.Digit("b")
	order := zzverif.IntRange("order", 0, 3)
	alts := []string{`"@t", "@u"`, `"@u", "@t"`, `"@u", "@v"`, `"@t", "@t2", "@v"`}[order]
	root := New("root", string([]byte{v})+` // {or: [`+alts+`]}`)
	_ = root.AddType("@t", New("@t", `9 // {min: `+string([]byte{a})+`}`))
	_ = root.AddType("@t2", New("@t2", `9 // {min: `+string([]byte{a})+`}`))
	_ = root.AddType("@v", New("@v", `0 // {max: `+string([]byte{b})+`}`))
	_ = root.AddType("@u", New("@u", `@t | @v`))
	err := root.Check()
	want := v >= a || v <= b
	zzverif.Assert((err == nil) == want, "accepted iff some alternative, also one reached through a type choice, accepts the value")
	if err == nil {
		zzverif.Reach("accepted")
	} else {
		zzverif.Reach("rejected")
	}
}

// VerifC01_NullString: the STRING "null" (and its neighbours) under minLength
// with every spelling of nullable: it is a string like any other - accepted
// iff it is long enough.
func VerifC01_NullString() {
	zzverif.Expect("accepted", "rejected")
	val := []string{"null", "nul", "nulls", "NULL", "true"}[zzverif.IntRange("value", 0, 4)]
	n := zzverif.Digit("n")
	rules := "minLength: " + string([]byte{n})
	switch zzverif.IntRange("nullable", 0, 2) {
	case 1:
		rules += ", nullable: true"
	case 2:
		rules = "nullable: false, " + rules
	}
	err := New("s", `"`+val+`" // {`+rules+`}`).Check()
	want := len(val) >= int(n-'0')
	zzverif.Assert((err == nil) == want, "a string that spells a literal is a string: accepted iff it satisfies minLength")
	if err == nil {
		zzverif.Reach("accepted")
	} else {
		zzverif.Reach("rejected")
	}
}
