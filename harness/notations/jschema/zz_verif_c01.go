package jschema

import (
	"github.com/jsightapi/jsight-schema-core/errs"
	"github.com/jsightapi/jsight-schema-core/kit"
	"github.com/jsightapi/jsight-schema-core/zzverif"
)

// vNum is a decimal literal hole: [-] (0 | d | d d) [. f [f]]
type vNum struct {
	text    []byte
	neg     bool
	intD    []byte
	fraD    []byte
	isFloat bool
}

// vNumber builds a number literal with up to maxInt integer digits and up to
// maxFra fraction digits, every digit symbolic, sign symbolic when signed.
func vNumber(tag string, maxInt, maxFra int, signed bool) vNum {
	var n vNum
	if signed && zzverif.Bool(tag+"neg") {
		n.neg = true
		n.text = append(n.text, '-')
	}
	il := zzverif.IntRange(tag+"intLen", 1, maxInt)
	for i := 0; i < il; i++ {
		d := zzverif.Digit(tag + "i")
		if i == 0 && il > 1 {
			zzverif.Assume(d != '0') // no superfluous leading zero
		}
		n.intD = append(n.intD, d)
	}
	n.text = append(n.text, n.intD...)
	fl := zzverif.IntRange(tag+"fraLen", 0, maxFra)
	if fl > 0 {
		n.isFloat = true
		n.text = append(n.text, '.')
		for i := 0; i < fl; i++ {
			n.fraD = append(n.fraD, zzverif.Digit(tag+"f"))
		}
		n.text = append(n.text, n.fraD...)
	}
	return n
}

// scaled returns the value times 10^k as an exact integer (k >= len(fraD)).
func (n vNum) scaled(k int) zzverif.Int {
	d := append(append([]byte{}, n.intD...), n.fraD...)
	v := zzverif.IntOfDigits(d).MulPow10(k - len(n.fraD))
	if n.neg {
		return v.Neg()
	}
	return v
}

func vMaxInt(a, b int) int {
	if a > b {
		return a
	}
	return b
}

// vCmp: sign of (a - b) as exact rationals.
func vCmp(a, b vNum) (lt, eq bool) {
	k := vMaxInt(len(a.fraD), len(b.fraD))
	A, B := a.scaled(k), b.scaled(k)
	return A.Lt(B), A.Eq(B)
}

func vErrCode(err error) errs.Code {
	switch e := err.(type) {
	case kit.JSchemaError:
		return e.Code()
	case *errs.Err:
		return e.Code()
	}
	return 0
}

func vJoin(parts ...[]byte) []byte {
	var r []byte
	for _, p := range parts {
		r = append(r, p...)
	}
	return r
}

// VerifC01_MinMax: `V // {min: B}` / `{max: B}` with optional exclusivity, for
// all signed decimals V, B with up to 2 integer and 2 (quick) / 3 (thorough)
// fraction digits: accepted iff V satisfies the bound exactly (value == bound,
// last-fraction-digit differences, trailing zeros, negatives, -0 included).
func VerifC01_MinMax() {
	zzverif.Expect("accepted", "rejected", "on-bound")
	// thorough: three fraction digits on the value, two on the bound (with three
	// on both, 153 exact-arithmetic obligations stayed `unknown` at the 60 s limit)
	mf := zzverif.Bound("fra", 2, 3)
	v := vNumber("v.", 2, mf, true)
	b := vNumber("b.", 2, 2, true)
	isMin := zzverif.Bool("isMin")
	excl := zzverif.IntRange("exclusive", 0, 2) // 0 absent, 1 true, 2 false
	rule := "min"
	exName := "exclusiveMinimum"
	if !isMin {
		rule, exName = "max", "exclusiveMaximum"
	}
	text := vJoin(v.text, []byte(" // {"+rule+": "), b.text)
	switch excl {
	case 1:
		text = vJoin(text, []byte(", "+exName+": true"))
	case 2:
		text = vJoin(text, []byte(", "+exName+": false"))
	}
	text = append(text, '}')
	lt, eq := vCmp(v, b)
	var want bool
	switch {
	case isMin && excl == 1:
		want = !lt && !eq
	case isMin:
		want = !lt
	case excl == 1:
		want = lt
	default:
		want = lt || eq
	}
	if eq {
		zzverif.Reach("on-bound")
	}
	err := New("s", text).Check()
	zzverif.Assert((err == nil) == want, "accepted iff the value satisfies min/max with the written exclusivity")
	if err == nil {
		zzverif.Reach("accepted")
	} else {
		zzverif.Reach("rejected")
		zzverif.Assert(vErrCode(err) == errs.ErrConstraintValidation, "rejected with the constraint-violation code")
	}
}

// VerifC01_MinMaxPair: `V // {min: A, max: B [, exclusiveMinimum: e1] [, exclusiveMaximum: e2]}`:
// accepted iff A <= V <= B with each bound strict when its exclusivity is true.
func VerifC01_MinMaxPair() { vMinMaxPair(1, false) }

// VerifC01_MinMaxPairExclusive: the same with both exclusivity rules present
// or absent in every combination (integers, so that the run stays short).
func VerifC01_MinMaxPairExclusive() { vMinMaxPair(0, true) }

func vMinMaxPair(frac int, exclusive bool) {
	zzverif.Expect("accepted", "rejected")
	v := vNumber("v.", 1, frac, true)
	a := vNumber("a.", 1, frac, true)
	b := vNumber("b.", 1, frac, true)
	text := vJoin(v.text, []byte(" // {min: "), a.text, []byte(", max: "), b.text)
	exMin, exMax := 0, 0 // 0 absent, 1 true, 2 false
	if exclusive {
		exMin = zzverif.IntRange("exMin", 0, 2)
		exMax = zzverif.IntRange("exMax", 0, 2)
	}
	if exMin != 0 {
		text = vJoin(text, []byte(", exclusiveMinimum: "), []byte([]string{"", "true", "false"}[exMin]))
	}
	if exMax != 0 {
		text = vJoin(text, []byte(", exclusiveMaximum: "), []byte([]string{"", "true", "false"}[exMax]))
	}
	text = append(text, '}')
	ltA, eqA := vCmp(v, a)
	ltB, eqB := vCmp(v, b)
	okMin := !ltA && !(eqA && exMin == 1)
	okMax := ltB || (eqB && exMax != 1)
	want := okMin && okMax
	err := New("s", text).Check()
	if err != nil && vErrCode(err) != errs.ErrConstraintValidation {
		// the pair itself can be refused (min > max); that is not a value reason
		zzverif.Assert(!want || true, "non-value refusal")
		zzverif.Reach("rejected")
		return
	}
	zzverif.Assert((err == nil) == want, "accepted iff min <= value <= max with the written exclusivities")
	if err == nil {
		zzverif.Reach("accepted")
	} else {
		zzverif.Reach("rejected")
	}
}

// VerifC01_Precision: `V // {precision: P}` for floats V with 1-3 fraction
// digits: accepted iff the number of significant fraction digits is <= P.
func VerifC01_Precision() {
	zzverif.Expect("accepted", "rejected")
	var v vNum
	v.intD = []byte{zzverif.Digit("i")}
	fl := zzverif.IntRange("fraLen", 1, 3)
	for i := 0; i < fl; i++ {
		v.fraD = append(v.fraD, zzverif.Digit("f"))
	}
	p := zzverif.Digit("p")
	zzverif.Assume(p != '0') // precision 0 is refused as a rule value (not a value reason)
	text := vJoin(v.intD, []byte("."), v.fraD, []byte(" // {precision: "), []byte{p}, []byte("}"))
	sig := len(v.fraD)
	for sig > 0 && v.fraD[sig-1] == '0' {
		sig--
	}
	want := sig <= int(p-'0')
	err := New("s", text).Check()
	zzverif.Assert((err == nil) == want, "accepted iff significant fraction digits <= precision")
	if err == nil {
		zzverif.Reach("accepted")
	} else {
		zzverif.Reach("rejected")
	}
}

// vStr is a string literal hole: 0..n content pieces, each a plain byte of the
// alphabet or a simple escape; decoded length is known by construction.
func vStr(tag string, n int) (lit []byte, decodedLen int) {
	lit = append(lit, '"')
	k := zzverif.IntRange(tag+"pieces", 0, n)
	for i := 0; i < k; i++ {
		if zzverif.Bool(tag + "esc") {
			lit = append(lit, '\\', zzverif.OneOf(tag+"e", "\"\\/bfnrt"))
		} else {
			lit = append(lit, zzverif.OneOf(tag+"c", "aZ09 .-_"))
		}
		decodedLen++
	}
	lit = append(lit, '"')
	return
}

// VerifC01_Length: `"s" // {minLength: N}` / `{maxLength: N}`: accepted iff
// the decoded length satisfies the limit (length == limit included).
func VerifC01_Length() {
	zzverif.Expect("accepted", "rejected", "on-limit")
	lit, dl := vStr("s.", zzverif.Bound("pieces", 3, 4))
	n := zzverif.Digit("n")
	isMin := zzverif.Bool("isMin")
	rule := "minLength"
	if !isMin {
		rule = "maxLength"
	}
	text := vJoin(lit, []byte(" // {"+rule+": "), []byte{n}, []byte("}"))
	lim := int(n - '0')
	want := dl >= lim
	if !isMin {
		want = dl <= lim
	}
	if dl == lim {
		zzverif.Reach("on-limit")
	}
	err := New("s", text).Check()
	zzverif.Assert((err == nil) == want, "accepted iff the decoded length satisfies minLength/maxLength")
	if err == nil {
		zzverif.Reach("accepted")
	} else {
		zzverif.Reach("rejected")
	}
}

// VerifC01_Items: `[ // {minItems: N}` with k items: accepted iff k satisfies the limit.
func VerifC01_Items() {
	zzverif.Expect("accepted", "rejected", "on-limit")
	k := zzverif.IntRange("items", 1, 3)
	n := zzverif.Digit("n")
	isMin := zzverif.Bool("isMin")
	rule := "minItems"
	if !isMin {
		rule = "maxItems"
	}
	text := []byte("[ // {" + rule + ": ")
	text = append(text, n, '}', '\n')
	for i := 0; i < k; i++ {
		if i > 0 {
			text = append(text, ',', '\n')
		}
		text = append(text, zzverif.Digit("item"))
	}
	text = append(text, '\n', ']')
	lim := int(n - '0')
	want := k >= lim
	if !isMin {
		want = k <= lim
	}
	if k == lim {
		zzverif.Reach("on-limit")
	}
	err := New("s", text).Check()
	zzverif.Assert((err == nil) == want, "accepted iff the item count satisfies minItems/maxItems")
	if err == nil {
		zzverif.Reach("accepted")
	} else {
		zzverif.Reach("rejected")
	}
}

// VerifC01_Or: `V // {or: [ALT1, {type: "integer", max: B}]}` where ALT1 is
// `{type: "integer", min: A}` or a rule set of ANOTHER JSON type (string,
// optionally nullable - it can never accept an integer): accepted iff some
// alternative accepts the value.
func VerifC01_Or() {
	zzverif.Expect("accepted", "rejected")
	v := vNumber("v.", 2, 0, true)
	a := vNumber("a.", 2, 0, true)
	b := vNumber("b.", 2, 0, true)
	alt := zzverif.IntRange("alt1", 0, 2)
	alt1 := vJoin([]byte(`{type: "integer", min: `), a.text, []byte(`}`))
	switch alt {
	case 1:
		alt1 = []byte(`{type: "string", nullable: true}`)
	case 2:
		alt1 = []byte(`{type: "string", minLength: 1}`)
	}
	text := vJoin(v.text, []byte(` // {or: [`), alt1, []byte(`, {type: "integer", max: `), b.text, []byte(`}]}`))
	ltA, _ := vCmp(v, a)
	ltB, eqB := vCmp(v, b)
	want := ltB || eqB
	if alt == 0 {
		want = want || !ltA
	}
	err := New("s", text).Check()
	zzverif.Assert((err == nil) == want, "accepted iff some `or` alternative accepts the value")
	if err == nil {
		zzverif.Reach("accepted")
	} else {
		zzverif.Reach("rejected")
	}
}

// VerifC01_TypeRef: @t = `V2 // {min: B}`; roots `V // {type: "@t"}` and
// `{"k": @t}`: accepted iff V2 >= B (the type's own example) and V >= B.
func VerifC01_TypeRef() {
	zzverif.Expect("accepted", "rejected")
	v := vNumber("v.", 2, 0, true)
	v2 := vNumber("w.", 2, 0, true)
	b := vNumber("b.", 2, 0, true)
	typ := vJoin(v2.text, []byte(" // {min: "), b.text, []byte("}"))
	asRule := zzverif.Bool("asRule")
	var root *JSchema
	if asRule {
		root = New("root", vJoin(v.text, []byte(` // {type: "@t"}`)))
	} else {
		root = New("root", `{"k": @t}`)
	}
	aerr := root.AddType("@t", New("@t", typ))
	zzverif.Assert(aerr == nil, "a syntactically valid type can be registered")
	lt2, _ := vCmp(v2, b)
	lt1, _ := vCmp(v, b)
	want := !lt2
	if asRule {
		want = want && !lt1
	}
	err := root.Check()
	zzverif.Assert((err == nil) == want, "accepted iff the type's own example and the referring value satisfy the type's rule")
	if err == nil {
		zzverif.Reach("accepted")
	} else {
		zzverif.Reach("rejected")
	}
}

// VerifC01_Enum: `V // {enum: [E1, E2]}`: accepted iff V is the same scalar as some entry.
func VerifC01_Enum() {
	zzverif.Expect("accepted", "rejected")
	x := vEnumScalar("x.")
	v1 := vEnumScalar("1.")
	v2 := vEnumScalar("2.")
	text := vJoin(x, []byte(" // {enum: ["), v1, []byte(", "), v2, []byte("]}"))
	same := func(a, b []byte) bool {
		as, bs := a[0] == '"', b[0] == '"'
		if as != bs {
			return false
		}
		if !as {
			return string(a) == string(b)
		}
		return string(vDecodeSimple(a)) == string(vDecodeSimple(b))
	}
	zzverif.Assume(!same(v1, v2)) // duplicate entries are refused (C17)
	want := same(x, v1) || same(x, v2)
	err := New("s", text).Check()
	zzverif.Assert((err == nil) == want, "accepted iff the value is one of the enum entries")
	if err == nil {
		zzverif.Reach("accepted")
	} else {
		zzverif.Reach("rejected")
	}
}

// vDecodeSimple decodes a string literal made of plain bytes and simple escapes.
func vDecodeSimple(lit []byte) []byte {
	var s []byte
	for i := 1; i < len(lit)-1; i++ {
		c := lit[i]
		if c != '\\' {
			s = append(s, c)
			continue
		}
		i++
		switch lit[i] {
		case 'b':
			s = append(s, '\b')
		case 'f':
			s = append(s, '\f')
		case 'n':
			s = append(s, '\n')
		case 'r':
			s = append(s, '\r')
		case 't':
			s = append(s, '\t')
		default:
			s = append(s, lit[i])
		}
	}
	return s
}

// VerifC01_TypesUnderAnyRoot: a registered type whose own example breaks its
// rule makes Check() fail whatever the root is - also an empty root, a root
// of blanks or of a comment only, and a root that does not refer to the type.
func VerifC01_TypesUnderAnyRoot() {
	zzverif.Expect("accepted", "rejected")
	v := vNumber("v.", 1, 1, true)
	b := vNumber("b.", 1, 1, true)
	typ := vJoin(v.text, []byte(" // {max: "), b.text, []byte("}"))
	roots := []string{"", " ", "\n", "# only a comment", `{"unrelated": true}`, `@t`}
	root := New("root", roots[zzverif.IntRange("root", 0, len(roots)-1)])
	aerr := root.AddType("@t", New("@t", typ))
	zzverif.Assert(aerr == nil, "a syntactically valid type can be registered")
	lt, eq := vCmp(v, b)
	err := root.Check()
	zzverif.Assert((err == nil) == (lt || eq), "every registered type's example is checked against its rules, under any root")
	if err == nil {
		zzverif.Reach("accepted")
	} else {
		zzverif.Reach("rejected")
	}
}
