package jschema

import (
	schema "github.com/jsightapi/jsight-schema-core"
	"github.com/jsightapi/jsight-schema-core/rules/enum"
	"github.com/jsightapi/jsight-schema-core/zzverif"
)

// mLayout: presentation choices that must not change the meaning.
type mLayout struct {
	nl         string // line break
	indent     string
	colonGap   string // blanks after ':' in members
	nameGap    string // blanks between a rule name and its ':'
	closeGap   string // blanks before the '}' that closes a rule set
	noteBreak  bool   // a multi-line annotation's note continues on the next line (OpenAPI harness only)
	pipeGap    int    // spelling of the bar of a type choice: 0 " | ", 1 "|", 2 "| ", 3 " |", 4 "\t|  "
	listBreak  bool   // in /* */ annotations the items of a rule's list stand on their own lines
	emptyGap   string // blanks between the brackets of an empty container written on one line
	slashGap   string // blanks between the annotation introducer (// or /*) and its body ("" = one space)
	annGap     string // blanks between element and annotation
	multi      bool   // write annotations as /* */ instead of //
	quoteNames bool   // quote rule names
	comments   int    // 0 none, 1 `# c` line comments, 2 `###` block comment, 3 block comment between value and annotation
	lead, tail string // leading / trailing blank lines
}

func mAnnotationL(n mNode, L mLayout) string {
	if len(n.rules) == 0 && n.note == "" {
		return n.userComment
	}
	body := ""
	if len(n.rules) > 0 {
		body = "{"
		for i, r := range n.rules {
			if i > 0 {
				body += "," + L.colonGap
			}
			name := r.name
			if L.quoteNames {
				name = `"` + name + `"`
			}
			text := r.text
			if L.multi && L.listBreak && len(text) > 0 && text[0] == '[' {
				var broken []byte
				depth := 0
				for k := 0; k < len(text); k++ {
					ch := text[k]
					switch {
					case ch == '[' && depth == 0:
						broken = append(broken, "["+L.nl...)
						depth++
						continue
					case ch == '{' || ch == '[':
						depth++
					case ch == '}' || (ch == ']' && depth > 1):
						depth--
					case ch == ']' && depth == 1:
						broken = append(broken, L.nl+"]"...)
						depth--
						continue
					case ch == ',' && depth == 1:
						broken = append(broken, ","+L.nl...)
						if k+1 < len(text) && text[k+1] == ' ' {
							k++
						}
						continue
					}
					broken = append(broken, ch)
				}
				text = string(broken)
			}
			body += name + L.nameGap + ":" + L.colonGap + text
		}
		body += L.closeGap + "}"
	}
	if n.note != "" {
		if body != "" {
			body += " - "
		}
		note := n.note
		if L.multi && L.noteBreak {
			for i := 1; i < len(note); i++ {
				if note[i] == ' ' {
					note = note[:i] + L.nl + note[i+1:]
					break
				}
			}
		}
		body += note
	}
	sg := " "
	if L.slashGap != "" {
		sg = L.slashGap
	}
	if L.multi {
		return L.annGap + "/*" + sg + body + " */" + n.userComment
	}
	return L.annGap + "//" + sg + body + n.userComment
}

// mValText spells the bar of a type choice as the layout says.
func mValText(v string, L mLayout) string {
	if L.pipeGap == 0 || len(v) == 0 || v[0] != '@' {
		return v
	}
	bar := []string{" | ", "|", "| ", " |", "\t|  "}[L.pipeGap]
	var out []byte
	for k := 0; k < len(v); k++ {
		if k+3 <= len(v) && v[k:k+3] == " | " {
			out = append(out, bar...)
			k += 2
			continue
		}
		out = append(out, v[k])
	}
	return string(out)
}

func mPrintL(n mNode, L mLayout) string {
	s := L.lead
	switch n.kind {
	case schema.TokenTypeObject, schema.TokenTypeArray:
		open, close := "{", "}"
		if n.kind == schema.TokenTypeArray {
			open, close = "[", "]"
		}
		if len(n.children) == 0 && n.valText == "inline" {
			// an empty container on one line, its annotation after the closing bracket
			return s + open + L.emptyGap + close + mAnnotationL(n, L) + L.tail
		}
		s += open + mAnnotationL(n, L) + L.nl
		if L.comments == 1 {
			s += L.indent + "# a user comment" + L.nl
		}
		if L.comments == 2 {
			s += "###" + L.nl + "block" + L.nl + "###" + L.nl
		}
		for i, c := range n.children {
			s += L.indent
			if n.kind == schema.TokenTypeObject {
				if c.shortcut {
					s += c.key + ":" + L.colonGap
				} else {
					s += `"` + c.key + `":` + L.colonGap
				}
			}
			s += mValText(c.valText, L)
			if i != len(n.children)-1 {
				s += ","
			}
			if L.comments == 3 && i == 0 && mAnnotationL(c, L) != "" {
				s += " ###" + L.nl + "two lines" + L.nl + "of block comment ###"
			}
			s += mAnnotationL(c, L)
			if L.comments == 1 && (i == 0 || i == len(n.children)-1) {
				s += " # trailing comment"
			}
			s += L.nl
		}
		s += close
	default:
		s += mValText(n.valText, L)
		if L.comments == 3 && mAnnotationL(n, L) != "" {
			s += " ###" + L.nl + "two lines" + L.nl + "of block comment ###"
		}
		s += mAnnotationL(n, L)
		if L.comments == 1 {
			s += " # trailing comment"
		}
	}
	return s + L.tail
}

func mCanonical() mLayout {
	return mLayout{nl: "\n", indent: "  ", colonGap: " ", annGap: " "}
}

// mVary changes ONE layout dimension of L (chosen symbolically).
func mVary(L mLayout, tag string) mLayout { return mVaryAmong(L, tag, nil) }

// mVaryAmong: the dimension is taken from the given list (nil: any of the 15).
func mVaryAmong(L mLayout, tag string, among []int) mLayout {
	dim := 0
	if among == nil {
		dim = zzverif.IntRange(tag+"dim", 0, 14)
	} else {
		dim = among[zzverif.IntRange(tag+"dim", 0, len(among)-1)]
	}
	switch dim {
	case 0:
		L.nl = []string{"\r\n", "\r"}[zzverif.IntRange(tag+"nl", 0, 1)]
	case 1:
		L.indent = []string{"", " ", "\t", "    "}[zzverif.IntRange(tag+"indent", 0, 3)]
	case 2:
		L.colonGap = []string{"", "  ", "\t"}[zzverif.IntRange(tag+"colonGap", 0, 2)]
	case 3:
		L.annGap = []string{"", "   ", "\t"}[zzverif.IntRange(tag+"annGap", 0, 2)]
	case 4:
		L.multi = true
	case 5:
		L.quoteNames = true
	case 6:
		L.comments = zzverif.IntRange(tag+"comments", 1, 3)
	case 7:
		L.lead = L.nl + " " + L.nl
	case 9:
		L.nameGap = []string{" ", "\t", "  "}[zzverif.IntRange(tag+"nameGap", 0, 2)]
	case 14:
		L.slashGap = []string{"\t", "  ", " \t"}[zzverif.IntRange(tag+"slashGap", 0, 2)]
	case 13:
		L.emptyGap = []string{" ", "\t", "  "}[zzverif.IntRange(tag+"emptyGap", 0, 2)]
	case 11:
		L.pipeGap = zzverif.IntRange(tag+"pipeGap", 1, 4)
	case 12:
		L.multi, L.listBreak = true, true
	case 10:
		L.closeGap = []string{" ", "\t"}[zzverif.IntRange(tag+"closeGap", 0, 1)]
	default:
		L.tail = L.nl + "\t" + L.nl
	}
	return L
}

// mVaried: one dimension (quick) or two dimensions (thorough) differ from the
// canonical layout.
func mVaried() mLayout {
	L := mVary(mCanonical(), "1.")
	if zzverif.Bound("dims", 1, 2) == 2 {
		// thorough: a second dimension out of the three that change the line
		// structure (line ends, /* */ annotations, user comments); the full
		// product of two arbitrary dimensions did not finish in 45 minutes
		L = mVaryAmong(L, "2.", []int{0, 4, 6})
	}
	return L
}

// mNoteWith: a note ending in a symbolic letter, or a fixed one in the
// concrete-notes mode.
func mNoteWith(prefix, sc string) string {
	if mConcreteNotes {
		return prefix + "x"
	}
	return prefix + sc
}

var mModelNo int // the model chosen on this path (for the reachability witnesses)

func mModel() mNode {
	d := string([]byte{zzverif.Digit("d")})
	sc := string([]byte{zzverif.OneOf("s", "ab.")})
	mModelNo = zzverif.IntRange("model", 0, 11)
	switch mModelNo {
	case 0:
		return mNode{kind: schema.TokenTypeNumber, valText: d, valWant: d,
			rules: []mRule{{"min", "3", mNum(schema.TokenTypeNumber, "3")}, {"max", "7", mNum(schema.TokenTypeNumber, "7")}}, note: mNote("n.")}
	case 1:
		return mNode{kind: schema.TokenTypeString, valText: `"` + sc + `"`, valWant: sc,
			rules: []mRule{{"or", `[{type: "string", maxLength: 1}, "integer"]`, schema.RuleASTNode{}}}, note: mNote("n.")}
	case 2:
		root := mNode{kind: schema.TokenTypeObject, note: mNote("r.")}
		root.children = []mNode{
			{kind: schema.TokenTypeNumber, key: "a", valText: d, valWant: d, rules: []mRule{{"min", "3", mNum(schema.TokenTypeNumber, "3")}}, note: mNote("a.")},
			{kind: schema.TokenTypeString, key: "b", valText: `"` + sc + `"`, valWant: sc, rules: []mRule{{"optional", "true", mNum(schema.TokenTypeBoolean, "true")}}},
			{kind: schema.TokenTypeShortcut, key: "c", valText: "@t", valWant: "@t"},
		}
		return root
	case 8: // inheritance from two types, a reference as the last member
		root := mNode{kind: schema.TokenTypeObject, rules: []mRule{{"allOf", `["@o", "@o2"]`, schema.RuleASTNode{}}}}
		root.children = []mNode{
			{kind: schema.TokenTypeNumber, key: "a", valText: d, valWant: d},
			{kind: schema.TokenTypeShortcut, key: "c", valText: "@t | @u", valWant: "@t | @u"},
		}
		return root
	case 10: // an empty array on one line with rules and a note
		return mNode{kind: schema.TokenTypeArray, valText: "inline", rules: []mRule{{"minItems", "0", mNum(schema.TokenTypeNumber, "0")}}, note: mNote("n.")}
	case 11: // an empty object on one line with a note
		return mNode{kind: schema.TokenTypeObject, valText: "inline", note: mNoteWith("empty ", sc)}
	case 9: // the whole schema is a reference
		return mNode{kind: schema.TokenTypeShortcut, valText: "@t", valWant: "@t"}
	case 6: // a reference to a named enum rule as the LAST rule of the set
		return mNode{kind: schema.TokenTypeNumber, valText: d, valWant: d,
			rules: []mRule{{"nullable", "false", mNum(schema.TokenTypeBoolean, "false")}, {"enum", "@e", schema.RuleASTNode{}}}, note: mNote("n.")}
	case 7: // ... and as the only rule of a member
		root := mNode{kind: schema.TokenTypeObject}
		root.children = []mNode{
			{kind: schema.TokenTypeNumber, key: "a", valText: d, valWant: d, rules: []mRule{{"enum", "@e", schema.RuleASTNode{}}}},
			{kind: schema.TokenTypeString, key: "b", valText: `"` + sc + `"`, valWant: sc, note: mNote("b.")},
		}
		return root
	case 4: // a user comment after the note is part of the text in BOTH layouts
		root := mNode{kind: schema.TokenTypeObject}
		root.children = []mNode{
			{kind: schema.TokenTypeNumber, key: "a", valText: d, valWant: d,
				rules: []mRule{{"min", "3", mNum(schema.TokenTypeNumber, "3")}}, note: mNoteWith("note ", sc), userComment: " # c" + sc},
			{kind: schema.TokenTypeNumber, key: "b", valText: d, valWant: d, note: "plain note", userComment: " # d"},
			{kind: schema.TokenTypeString, key: "c", valText: `"` + sc + `"`, valWant: sc},
		}
		return root
	case 5: // an array-valued member followed by `, # comment`, then an annotated member
		root := mNode{kind: schema.TokenTypeObject}
		root.children = []mNode{
			{kind: schema.TokenTypeArray, key: "a", valText: "[" + d + "]", userComment: " # c" + sc},
			{kind: schema.TokenTypeNumber, key: "b", valText: d, valWant: d, rules: []mRule{{"min", "3", mNum(schema.TokenTypeNumber, "3")}}},
		}
		return root
	default:
		root := mNode{kind: schema.TokenTypeArray, rules: []mRule{{"minItems", "1", mNum(schema.TokenTypeNumber, "1")}}}
		root.children = []mNode{
			{kind: schema.TokenTypeNumber, valText: d, valWant: d, note: mNote("i.")},
			{kind: schema.TokenTypeShortcut, valText: "@t | @u", valWant: "@t | @u"},
		}
		return root
	}
}

// VerifC14_Layout: the same schema model printed canonically and under an
// arbitrary combination of layout choices (blank amounts, LF/CRLF/CR, leading
// and trailing blank lines, // vs /* */, quoted vs bare rule names, # and ###
// user comments): same verdict and code; when accepted the same AST, example
// and used-type list.
// ZzC14Pair hands the same layout pairs (with notes from a fixed list) to the
// harness of package jsoac, which compares the OpenAPI Schema Objects.
func ZzC14Pair() (*JSchema, *JSchema) {
	mConcreteNotes = true
	m := mModel()
	base := mCanonical()
	if zzverif.Bool("brokenNotes") {
		// both layouts write /* */ annotations whose note continues on the
		// next line: the description is the note with its blanks normalised
		base.multi, base.noteBreak = true, true
	}
	t1 := mPrintL(m, base)
	L2 := mVary(base, "1.") // one dimension in both tiers
	t2 := mPrintL(m, L2)
	mk2 := func(text string) *JSchema {
		s := New("s", text)
		_ = s.AddRule("@e", enum.New("@e", "[1, 2, 3, 4, 5]"))
		_ = s.AddType("@t", New("@t", `"x"`))
		_ = s.AddType("@o", New("@o", `{"oa": 1}`))
		_ = s.AddType("@o2", New("@o2", `{"ob": 2}`))
		_ = s.AddType("@u", New("@u", `1`))
		return s
	}
	return mk2(t1), mk2(t2)
}

func VerifC14_Layout() {
	// every model must be accepted under some layout pair: a model that is
	// always rejected (e.g. for a missing rule) would compare nothing
	zzverif.Expect("accepted", "rejected", "accepted-0", "accepted-1", "accepted-2", "accepted-3", "accepted-4", "accepted-5", "accepted-6", "accepted-7", "accepted-8", "accepted-9", "accepted-10", "accepted-11")
	m := mModel()
	t1 := mPrintL(m, mCanonical())
	t2 := mPrintL(m, mVaried())
	withU := zzverif.Bool("registerU")
	mk2 := func(text string) *JSchema {
		s := New("s", text)
		_ = s.AddRule("@e", enum.New("@e", "[1, 2, 3, 4, 5]")) // rules first: AddType loads the text
		_ = s.AddType("@t", New("@t", `"x"`))
		_ = s.AddType("@o", New("@o", `{"oa": 1}`))
		_ = s.AddType("@o2", New("@o2", `{"ob": 2}`))
		if withU {
			_ = s.AddType("@u", New("@u", `1`))
		}
		return s
	}
	s1, s2 := mk2(t1), mk2(t2)
	e1, e2 := s1.Check(), s2.Check()
	zzverif.Assert((e1 == nil) == (e2 == nil), "same verdict under every layout")
	if e1 != nil || e2 != nil {
		zzverif.Reach("rejected")
		zzverif.Assert(vErrCode(e1) == vErrCode(e2), "same error code under every layout")
		return
	}
	zzverif.Reach("accepted")
	zzverif.Reach("accepted-" + []string{"0", "1", "2", "3", "4", "5", "6", "7", "8", "9", "10", "11"}[mModelNo])
	a1, _ := s1.GetAST()
	a2, _ := s2.GetAST()
	zzverif.Assert(vSameAST(mNoRefBlanks(a1), mNoRefBlanks(a2)), "same AST under every layout (blanks inside a reference text aside)")
	x1, xe1 := s1.Example()
	x2, xe2 := s2.Example()
	zzverif.Assert((xe1 == nil) == (xe2 == nil) && string(x1) == string(x2), "same example under every layout")
	u1, _ := s1.UsedUserTypes()
	u2, _ := s2.UsedUserTypes()
	zzverif.Assert(vSameStrings(u1, u2), "same used types under every layout")
}

// mNoRefBlanks returns the AST with the blanks inside reference texts
// (`@a | @b` is reported as written) removed, so that two spellings of the same
// type choice compare equal.
func mNoRefBlanks(a schema.ASTNode) schema.ASTNode {
	if len(a.Value) > 0 && a.Value[0] == '@' {
		var v []byte
		for k := 0; k < len(a.Value); k++ {
			if a.Value[k] != ' ' && a.Value[k] != '\t' {
				v = append(v, a.Value[k])
			}
		}
		a.Value = string(v)
	}
	if len(a.Children) > 0 {
		cs := make([]schema.ASTNode, len(a.Children))
		for i := range a.Children {
			cs[i] = mNoRefBlanks(a.Children[i])
		}
		a.Children = cs
	}
	return a
}
