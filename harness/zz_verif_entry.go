package schema

import (
	"github.com/jsightapi/jsight-schema-core/bytes"
	"github.com/jsightapi/jsight-schema-core/json"
	"github.com/jsightapi/jsight-schema-core/zzverif"
)

// VerifC02_NumberAndGuess: NewNumber and GuessSchemaType on every text of up
// to N bytes (at most 3 exponent digits, see C13) return a value or an error.
func VerifC02_NumberAndGuess() {
	zzverif.Expect("number", "not-number")
	zzverif.BoundIsViolation()
	n := zzverif.IntRange("len", 0, zzverif.Bound("N", 5, 7))
	text := zzverif.Bytes("text", n)
	digits := 0
	seenE := false
	for _, c := range text {
		if c == 'e' || c == 'E' {
			seenE = true
		} else if seenE && c >= '0' && c <= '9' {
			digits++
		}
	}
	zzverif.Assume(digits <= 3)
	num, err := json.NewNumber(bytes.NewBytes(text))
	if err == nil {
		zzverif.Reach("number")
		zzverif.Assert(num != nil, "NewNumber returns a number or an error")
	} else {
		zzverif.Reach("not-number")
	}
	_, _ = GuessSchemaType(text)
}

// VerifC02_NumberExtremes: a symbolic mantissa `d`, `d.f` or `0.f` with a
// concrete exponent at and beyond every limit of the implementation (the
// refusal threshold, 17-20 digit exponents of both signs, values around 2^63
// and 2^64): NewNumber and GuessSchemaType return a value or an error.
func VerifC02_NumberExtremes() {
	zzverif.Expect("number", "not-number")
	zzverif.BoundIsViolation()
	exps := []string{"1000", "-1000", "1000001", "-1000001",
		"99999999999999999", "-99999999999999999", "9223372036854775807", "-9223372036854775807",
		"9223372036854775808", "-9223372036854775808", "9999999999999999999", "-9999999999999999999",
		"18446744073709551615", "-18446744073709551615", "18446744073709551616", "-18446744073709551616"}
	k := zzverif.IntRange("exp", 0, len(exps)-1)
	var text []byte
	if zzverif.Bool("negative") {
		text = append(text, '-')
	}
	text = append(text, zzverif.Digit("d"))
	if zzverif.Bool("frac") {
		text = append(text, '.', zzverif.Digit("f"))
	}
	text = append(text, []byte{'e', 'E'}[zzverif.IntRange("e", 0, 1)])
	text = append(text, exps[k]...)
	num, err := json.NewNumber(bytes.NewBytes(text))
	if err == nil {
		zzverif.Reach("number")
		zzverif.Assert(num != nil, "NewNumber returns a number or an error")
	} else {
		zzverif.Reach("not-number")
	}
	_, _ = GuessSchemaType(text)
}
