package schema

import (
	"github.com/jsightapi/jsight-schema-core/bytes"
	"github.com/jsightapi/jsight-schema-core/json"
	"github.com/jsightapi/jsight-schema-core/zzverif"
)

// VerifC02_NumberAndGuess: NewNumber and GuessSchemaType on every text of up
// to N bytes (at most 3 exponent digits, see C13) return a value or an error.
func VerifC02_NumberAndGuess() {
	zzverif.Expect("number", "not-number")
	zzverif.BoundIsViolation()
	n := zzverif.IntRange("len", 0, zzverif.Bound("N", 5, 7))
	text := zzverif.Bytes("text", n)
	digits := 0
	seenE := false
	for _, c := range text {
		if c == 'e' || c == 'E' {
			seenE = true
		} else if seenE && c >= '0' && c <= '9' {
			digits++
		}
	}
	zzverif.Assume(digits <= 3)
	num, err := json.NewNumber(bytes.NewBytes(text))
	if err == nil {
		zzverif.Reach("number")
		zzverif.Assert(num != nil, "NewNumber returns a number or an error")
	} else {
		zzverif.Reach("not-number")
	}
	_, _ = GuessSchemaType(text)
}
