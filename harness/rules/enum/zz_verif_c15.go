package enum

import (
	"github.com/jsightapi/jsight-schema-core/zzverif"
)

// VerifC15_EnumFollow: Len() of an enum rule: never exceeds the text, is
// idempotent on the prefix it delimits, and is not moved by text that follows
// on a new line (not starting with '/' or '#').
func VerifC15_EnumFollow() {
	zzverif.Expect("same")
	d := zzverif.Digit("d")
	s := zzverif.OneOf("s", "ab ./#")
	var S []byte
	switch zzverif.IntRange("rule", 0, 4) {
	case 0:
		S = []byte{'[', d, ']'}
	case 1:
		S = []byte{'[', d, ',', ' ', '"', s, '"', ']'}
	case 2:
		S = append([]byte{'[', '\n', ' ', d, ',', ' ', '/', '/', ' ', 'n'}, []byte{s, '\n', ' ', '"', 'x', '"', '\n', ']'}...)
	case 3:
		S = append([]byte{'[', d, ']', ' ', '/', '/', ' ', 'n'}, s)
	default:
		S = []byte("[]")
	}
	n, err := New("e", S).Len()
	zzverif.Assert(err == nil && int(n) <= len(S), "Len() succeeds and never exceeds the text")
	if err != nil || int(n) > len(S) {
		return
	}
	n2, err2 := New("e", S[:n]).Len()
	zzverif.Assert(err2 == nil && n2 == n, "Len() is idempotent on the prefix")
	nl := []string{"\n", "\r", "\r\n"}[zzverif.IntRange("nl", 0, 2)]
	c := zzverif.Byte("first")
	zzverif.Assume(c != '/' && c != '#' && c != ' ' && c != '\t' && c != '\n' && c != '\r')
	k := zzverif.IntRange("restLen", 0, zzverif.Bound("rest", 1, 2))
	T := append(append(append([]byte{}, S...), nl...), c)
	T = append(T, zzverif.Bytes("rest", k)...)
	m, merr := New("t", T).Len()
	zzverif.Assert(merr == nil && m == n, "what follows on a new line never moves the boundary")
	zzverif.Reach("same")
}
