package enum

import (
	"github.com/jsightapi/jsight-schema-core/zzverif"
)

// ---- reference: enum rule text without annotations/comments (DESIGN.md B.6) ----

type vItem struct {
	begin, end int // byte span
	kind       string
}

func vBlank(c byte) bool { return c == ' ' || c == '\t' || c == '\n' || c == '\r' }
func vDigit(c byte) bool { return c >= '0' && c <= '9' }
func vHex(c byte) bool {
	return vDigit(c) || (c >= 'a' && c <= 'f') || (c >= 'A' && c <= 'F')
}

// vScalar parses one JSON scalar without exponent at b[i:]; returns the index
// after it and its schema kind, or ok=false.
func vScalar(b []byte, i int) (end int, kind string, ok bool) {
	if i >= len(b) {
		return 0, "", false
	}
	word := func(w, k string) (int, string, bool) {
		if i+len(w) <= len(b) && string(b[i:i+len(w)]) == w {
			return i + len(w), k, true
		}
		return 0, "", false
	}
	c := b[i]
	switch {
	case c == '"':
		j := i + 1
		for j < len(b) {
			d := b[j]
			switch {
			case d == '"':
				return j + 1, "string", true
			case d == '\\':
				j++
				if j >= len(b) {
					return 0, "", false
				}
				e := b[j]
				switch e {
				case '"', '\\', '/', 'b', 'f', 'n', 'r', 't':
					j++
				case 'u':
					j++
					for k := 0; k < 4; k++ {
						if j >= len(b) || !vHex(b[j]) {
							return 0, "", false
						}
						j++
					}
				default:
					return 0, "", false
				}
			case d < 0x20:
				return 0, "", false
			default:
				j++
			}
		}
		return 0, "", false
	case c == 't':
		return word("true", "boolean")
	case c == 'f':
		return word("false", "boolean")
	case c == 'n':
		return word("null", "null")
	case c == '-' || vDigit(c):
		j := i
		if b[j] == '-' {
			j++
			if j >= len(b) {
				return 0, "", false
			}
		}
		switch {
		case b[j] == '0':
			j++
		case b[j] >= '1' && b[j] <= '9':
			for j < len(b) && vDigit(b[j]) {
				j++
			}
		default:
			return 0, "", false
		}
		kind = "integer"
		if j < len(b) && b[j] == '.' {
			j++
			if j >= len(b) || !vDigit(b[j]) {
				return 0, "", false
			}
			for j < len(b) && vDigit(b[j]) {
				j++
			}
			kind = "float"
		}
		if j < len(b) && (b[j] == 'e' || b[j] == 'E') {
			return 0, "", false // exponent forms are not allowed in enum rules
		}
		return j, kind, true
	}
	return 0, "", false
}

// vParseEnum: ws '[' ws (scalar (ws ',' ws scalar)*)? ws ']' ws
func vParseEnum(b []byte) (items []vItem, ok bool) {
	i := 0
	ws := func() {
		for i < len(b) && vBlank(b[i]) {
			i++
		}
	}
	ws()
	if i >= len(b) || b[i] != '[' {
		return nil, false
	}
	i++
	ws()
	if i < len(b) && b[i] == ']' {
		i++
		ws()
		return nil, i == len(b)
	}
	for {
		ws()
		end, kind, good := vScalar(b, i)
		if !good {
			return nil, false
		}
		items = append(items, vItem{i, end, kind})
		i = end
		ws()
		if i >= len(b) {
			return nil, false
		}
		if b[i] == ',' {
			i++
			continue
		}
		if b[i] == ']' {
			i++
			ws()
			return items, i == len(b)
		}
		return nil, false
	}
}

// vDecode is the decoded value of a JSON string literal made of plain ASCII
// bytes and simple escapes; ok=false when it contains \u escapes or non-ASCII
// (those comparisons are outside this reference).
func vDecode(lit []byte) (s []byte, ok bool) {
	for i := 1; i < len(lit)-1; i++ {
		c := lit[i]
		if c >= 0x80 {
			return nil, false
		}
		if c != '\\' {
			s = append(s, c)
			continue
		}
		i++
		switch lit[i] {
		case '"':
			s = append(s, '"')
		case '\\':
			s = append(s, '\\')
		case '/':
			s = append(s, '/')
		case 'b':
			s = append(s, '\b')
		case 'f':
			s = append(s, '\f')
		case 'n':
			s = append(s, '\n')
		case 'r':
			s = append(s, '\r')
		case 't':
			s = append(s, '\t')
		default:
			return nil, false
		}
	}
	return s, true
}

// vSame: two entries are the same iff both are strings with equal decoded
// value, or both are non-strings with byte-identical literals.
func vSame(b []byte, x, y vItem) (same, known bool) {
	xs, ys := x.kind == "string", y.kind == "string"
	if xs != ys {
		return false, true
	}
	if !xs {
		return string(b[x.begin:x.end]) == string(b[y.begin:y.end]), true
	}
	dx, ok1 := vDecode(b[x.begin:x.end])
	dy, ok2 := vDecode(b[y.begin:y.end])
	if !ok1 || !ok2 {
		return false, false
	}
	return string(dx) == string(dy), true
}

func vCheckEnum(text []byte) {
	items, wellFormed := vParseEnum(text)
	distinct := true
	for i := range items {
		for j := 0; j < i; j++ {
			same, known := vSame(text, items[i], items[j])
			if !known {
				return // \u escapes / non-ASCII in a duplicate candidate: no claim
			}
			if same {
				distinct = false
			}
		}
	}
	e := New("e", text)
	err := e.Check()
	want := wellFormed && distinct
	zzverif.Assert((err == nil) == want, "accepted iff a bracketed list of pairwise distinct scalars")
	if err != nil {
		zzverif.Reach("rejected")
		return
	}
	zzverif.Reach("accepted")
	vals, verr := e.Values()
	zzverif.Assert(verr == nil && len(vals) == len(items), "Values() has one entry per scalar")
	if len(vals) != len(items) {
		return
	}
	for i, it := range items {
		zzverif.Assert(vals[i].Value.String() == string(text[it.begin:it.end]), "Values() lists the scalars in order")
		zzverif.Assert(string(vals[i].Type) == it.kind, "Values() reports the JSON kind of each scalar")
	}
}

// VerifC17_RuleGrammar: every text of up to N bytes without annotation or
// comment introducers ('/', '#').
func VerifC17_RuleGrammar() {
	zzverif.Expect("accepted", "rejected")
	n := zzverif.IntRange("len", 0, zzverif.Bound("N", 4, 6))
	text := zzverif.Bytes("text", n)
	for _, c := range text {
		zzverif.Assume(c != '/' && c != '#')
	}
	zzverif.SetMapOrder(zzverif.IntRange("mapOrder", 0, 1))
	vCheckEnum(text)
}

func vScalarHole(tag string) []byte {
	switch zzverif.IntRange(tag+"kind", 0, 5) {
	case 0: // integer / float without exponent, one or two digits
		if zzverif.Bool(tag + "frac") {
			return []byte{zzverif.Digit(tag + "d"), '.', zzverif.Digit(tag + "f")}
		}
		return []byte{zzverif.Digit(tag + "d")}
	case 1: // string of two content bytes (letters, digits, dot, space)
		return []byte{'"', zzverif.OneOf(tag+"s", "ab1. "), zzverif.OneOf(tag+"s", "ab1. "), '"'}
	case 2: // string with one simple escape
		return []byte{'"', '\\', zzverif.OneOf(tag+"e", "\"\\/nt"), '"'}
	case 3:
		return []byte("true")
	case 4:
		return []byte("null")
	default: // string of one content byte
		return []byte{'"', zzverif.OneOf(tag+"s", "ab1./\x1f\x7f"), '"'} // incl. the last control character and DEL
	}
}

// VerifC17_AnnotatedRules: `[ V1 , V2 ]` - optionally with a dangling comma -
// with nothing, a line break, an inline annotation or a block annotation in
// every gap: accepted iff the same text with the annotations replaced by
// blanks is a well-formed list of distinct scalars (annotations never change
// what the rule means, and never make a malformed list acceptable).
func VerifC17_AnnotatedRules() {
	zzverif.Expect("accepted", "rejected")
	gap := func(tag string) (string, string) {
		switch zzverif.IntRange(tag, 0, 3) {
		case 0:
			return "", ""
		case 1:
			return "\n", "\n"
		case 2:
			return " // c\n", "      \n"
		default:
			return " /* c */ ", "         "
		}
	}
	v1 := []byte{zzverif.Digit("v1")}
	v2 := []byte{'"', zzverif.OneOf("v2", "ab1"), '"'}
	var text, plain []byte
	add := func(t, p string) { text = append(text, t...); plain = append(plain, p...) }
	add("[", "[")
	add(gap("g0"))
	add(string(v1), string(v1))
	add(gap("g1"))
	add(",", ",")
	add(gap("g2"))
	add(string(v2), string(v2))
	add(gap("g3"))
	if zzverif.Bool("danglingComma") {
		add(",", ",")
		add(gap("g4"))
	}
	add("]", "]")
	add(gap("g5"))
	_, wellFormed := vParseEnum(plain)
	err := New("e", text).Check()
	zzverif.Assert((err == nil) == wellFormed, "an annotated rule is accepted iff the list without its annotations is well formed")
	if err == nil {
		zzverif.Reach("accepted")
	} else {
		zzverif.Reach("rejected")
	}
}

// VerifC17_RuleTemplates: [V1, V2] with each V an integer, a float, a string of
// one/two bytes (letters, digits, dot, space, slash), a string with an escape,
// true or null - every pair, so strings that look like numbers, strings with
// dots and escapes equal to plain characters ("\/" vs "/") are all crossed.
func VerifC17_RuleTemplates() {
	zzverif.Expect("accepted", "rejected")
	v1 := vScalarHole("1.")
	v2 := vScalarHole("2.")
	text := append([]byte{'['}, v1...)
	text = append(text, ',', ' ')
	text = append(text, v2...)
	text = append(text, ']')
	zzverif.SetMapOrder(zzverif.IntRange("mapOrder", 0, 1))
	vCheckEnum(text)
}

// VerifC09_EnumRepeated: every operation of an enum rule repeats its answer on
// the same object - also when the text is refused after some values have
// already been read.
func VerifC09_EnumRepeated() {
	zzverif.Expect("accepted", "rejected")
	texts := []string{"[1, 2, 2]", "[1, 2", "[1, 2] x", "[\"a\", \"b\", 1.5, \"a\"]", "[1, 2, 3]", "[]", "[1, // c\n 2,\n]", "[1 2]"}
	e := New("e", texts[zzverif.IntRange("text", 0, len(texts)-1)])
	first := zzverif.IntRange("first", 0, 2)
	var c1, c2 bool
	var n1, n2 int
	run := func(op int) (bool, int) {
		switch op {
		case 0:
			return e.Check() == nil, 0
		case 1:
			v, err := e.Values()
			return err == nil, len(v)
		default:
			a, err := e.GetAST()
			return err == nil, len(a.Children)
		}
	}
	f1, _ := run(first)
	c1, n1 = run(0)
	zzverif.Assert(f1 == c1, "the first operation on a rule object and a later Check() agree on the verdict")
	v1ok, v1n := run(1)
	c2, n2 = run(0)
	v2ok, v2n := run(1)
	zzverif.Assert(c1 == c2 && n1 == n2, "Check() repeats its answer on the same rule object")
	zzverif.Assert(v1ok == v2ok && v1n == v2n && v1ok == c1, "Values() repeats its answer and agrees with Check()")
	if c1 {
		zzverif.Reach("accepted")
	} else {
		zzverif.Reach("rejected")
	}
}
