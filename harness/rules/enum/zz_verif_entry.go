package enum

import (
	"github.com/jsightapi/jsight-schema-core/zzverif"
	"github.com/jsightapi/jsight-schema-core/zzverif/zzdiag"
)

var vEnumCorpus = []string{
	"[1, \"a\", true, null, 2.5]",
	"[\n  \"x\", // note one\n  \"y\" /* note\n two */\n]",
	"[ // c\n 1\n]",
	"[]",
	"[\"\\u0041\\n\", -0.5]",
	"[1] # user comment\n### block ###",
	"[1] /* note after the list */",
	"[] // trailing note",
	"[\"a\"]\n/* a\n b */ ",
}

func vEnumText() []byte {
	fam := zzverif.IntRange("family", 0, 1)
	if fam == 0 {
		n := zzverif.IntRange("len", 0, zzverif.Bound("N", 4, 5))
		return zzverif.Bytes("text", n)
	}
	d := zzverif.IntRange("doc", 0, len(vEnumCorpus)-1)
	doc := vEnumCorpus[d]
	cut := zzverif.IntRange("cut", 0, len(doc))
	k := zzverif.IntRange("k", 0, zzverif.Bound("K", 1, 2))
	return append([]byte(doc[:cut]), zzverif.Bytes("tail", k)...)
}

func vEnumEntryPoints(text []byte, diag bool) {
	n, err := New("e", text).Len()
	if diag {
		zzdiag.Diag(err, len(text))
	}
	if err == nil {
		zzverif.Assert(int(n) <= len(text), "Len() never exceeds the text")
	}
	e := New("e", text)
	err = e.Check()
	if diag {
		zzdiag.Diag(err, len(text))
	}
	if err == nil {
		zzverif.Reach("accepted")
	}
	_, err = e.GetAST()
	if diag {
		zzdiag.Diag(err, len(text))
	}
	_, err = e.Values()
	if diag {
		zzdiag.Diag(err, len(text))
	}
}

// VerifC02_EnumText: every public operation of an enum rule on every text of
// up to N arbitrary bytes and on corpus prefixes followed by K arbitrary bytes.
func VerifC02_EnumText() {
	zzverif.Expect("accepted")
	zzverif.BoundIsViolation()
	vEnumEntryPoints(vEnumText(), false)
}

// VerifC16_EnumText: same inputs; every rejection is a well-formed diagnostic.
func VerifC16_EnumText() {
	zzverif.Expect("accepted", "rejected")
	vEnumEntryPoints(vEnumText(), true)
}
