package enum

import (
	"github.com/jsightapi/jsight-schema-core/zzverif"
	"github.com/jsightapi/jsight-schema-core/zzverif/zzdiag"
)

var vEnumCorpus = []string{
	"[1, \"a\", true, null, 2.5]",
	"[\n  \"x\", // note one\n  \"y\" /* note\n two */\n]",
	"[ // c\n 1\n]",
	"[]",
	"[\"\\u0041\\n\", -0.5]",
	"[1] # user comment\n### block ###",
	"[1] /* note after the list */",
	"[] // trailing note",
	"[\"a\"]\n/* a\n b */ ",
}

func vEnumText() []byte {
	fam := zzverif.IntRange("family", 0, 2)
	if fam == 2 {
		// single-byte mutation: a corpus text with ONE byte, at any position,
		// replaced by an arbitrary byte
		doc := []byte(vEnumCorpus[zzverif.IntRange("doc", 0, len(vEnumCorpus)-1)])
		zzverif.Assume(len(doc) > 0)
		doc[zzverif.IntRange("at", 0, len(doc)-1)] = zzverif.Byte("byte")
		return doc
	}
	if fam == 0 {
		n := zzverif.IntRange("len", 0, zzverif.Bound("N", 4, 5))
		return zzverif.Bytes("text", n)
	}
	d := zzverif.IntRange("doc", 0, len(vEnumCorpus)-1)
	doc := vEnumCorpus[d]
	cut := zzverif.IntRange("cut", 0, len(doc))
	k := zzverif.IntRange("k", 0, zzverif.Bound("K", 1, 2))
	return append([]byte(doc[:cut]), zzverif.Bytes("tail", k)...)
}

func vEnumEntryPoints(text []byte, diag bool) {
	n, err := New("e", text).Len()
	if diag {
		zzdiag.Diag(err, len(text))
	}
	if err == nil {
		zzverif.Assert(int(n) <= len(text), "Len() never exceeds the text")
	}
	e := New("e", text)
	err = e.Check()
	if diag {
		zzdiag.Diag(err, len(text))
	}
	if err == nil {
		zzverif.Reach("accepted")
	}
	_, err = e.GetAST()
	if diag {
		zzdiag.Diag(err, len(text))
	}
	_, err = e.Values()
	if diag {
		zzdiag.Diag(err, len(text))
	}
}

// VerifC02_EnumText: every public operation of an enum rule on every text of
// up to N arbitrary bytes and on corpus prefixes followed by K arbitrary bytes.
func VerifC02_EnumText() {
	zzverif.Expect("accepted")
	zzverif.BoundIsViolation()
	vEnumEntryPoints(vEnumText(), false)
}

// VerifC16_EnumText: same inputs; every rejection is a well-formed diagnostic.
func VerifC16_EnumText() {
	zzverif.Expect("accepted", "rejected")
	vEnumEntryPoints(vEnumText(), true)
}

// vBadString: a JSON string literal of up to max bytes drawn from an ASCII
// letter, an invalid byte, a two-byte lead and a continuation byte - every
// mixture of well-formed and malformed UTF-8 (each malformed byte decodes to
// the three-byte U+FFFD, so the decoded string can be longer than the literal).
func vBadString(tag string, max int) []byte {
	n := zzverif.IntRange(tag+"len", 0, max)
	lit := []byte{'"'}
	for i := 0; i < n; i++ {
		lit = append(lit, zzverif.OneOf(tag+"b", "a\xff\xc3\xa9"))
	}
	return append(lit, '"')
}

// VerifC02_EnumStrings: enum rules whose string values mix well-formed and
// malformed UTF-8, alone and next to a second value: every operation returns.
func VerifC02_EnumStrings() {
	zzverif.Expect("accepted")
	zzverif.BoundIsViolation()
	text := vJoinE([]byte("["), vBadString("s.", zzverif.Bound("badBytes", 6, 8)))
	if zzverif.Bool("second") {
		text = vJoinE(text, []byte(`, "a"`))
	}
	text = append(text, ']')
	vEnumEntryPoints(text, false)
}

func vJoinE(parts ...[]byte) []byte {
	var out []byte
	for _, p := range parts {
		out = append(out, p...)
	}
	return out
}
