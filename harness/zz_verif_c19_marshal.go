package schema

import (
	"github.com/jsightapi/jsight-schema-core/zzverif"
	"github.com/jsightapi/jsight-schema-core/zzverif/zzjson"
)

func mvKey(tag string) string {
	n := zzverif.IntRange(tag+"len", 1, 2)
	b := make([]byte, n)
	for i := range b {
		b[i] = zzverif.OneOf(tag+"c", "a\"\\\n\t\x00\x1e\x1f <&\x7f/")
	}
	return string(b)
}

// mvKeysOf extracts the top-level keys, in order, from a JSON object text
// whose values are arbitrary JSON.
func mvKeysOf(b []byte) (keys []string, ok bool) {
	evs, good := zzjson.Decode(b)
	if !good || len(evs) < 2 || evs[0].Kind != '{' {
		return nil, false
	}
	depth := 0
	for _, e := range evs {
		switch e.Kind {
		case '{', '[':
			depth++
		case '}', ']':
			depth--
		case 'k':
			if depth == 1 {
				keys = append(keys, e.Val)
			}
		}
	}
	return keys, depth == 0
}

// VerifC19_MarshalJSON: the JSON text of an ordered map is valid JSON with one
// entry per key, keys in insertion order and correctly escaped - for keys made
// of quotes, backslashes, control characters, HTML-sensitive characters. Value
// marshalling (reflection) is replaced by a token in the engine.
func VerifC19_MarshalJSON() {
	zzverif.Expect("marshalled")
	zzverif.StubJSONValues()
	n := zzverif.IntRange("n", 0, 2)
	var keys []string
	rules := &RuleASTNodes{}
	nodes := &ASTNodes{}
	for i := 0; i < n; i++ {
		k := mvKey("k.")
		dup := false
		for _, x := range keys {
			if x == k {
				dup = true
			}
		}
		zzverif.Assume(!dup)
		keys = append(keys, k)
		rules.Set(k, RuleASTNode{Value: "v"})
		nodes.Set(k, ASTNode{Value: "v"})
	}
	for which := 0; which < 2; which++ {
		var out []byte
		var err error
		if which == 0 {
			out, err = rules.MarshalJSON()
		} else {
			out, err = nodes.MarshalJSON()
		}
		zzverif.Assert(err == nil, "MarshalJSON succeeds")
		got, ok := mvKeysOf(out)
		zzverif.Assert(ok, "MarshalJSON returns valid JSON (an object)")
		same := len(got) == len(keys)
		if same {
			for i := range got {
				if got[i] != keys[i] {
					same = false
				}
			}
		}
		zzverif.Assert(same, "one entry per key, in insertion order, keys decoding to the stored keys")
	}
	zzverif.Reach("marshalled")
}
