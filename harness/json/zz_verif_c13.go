package json

import (
	"github.com/jsightapi/jsight-schema-core/bytes"
	"github.com/jsightapi/jsight-schema-core/zzverif"
)

// refNumberGrammar is the JSON number grammar (DESIGN.md B.1) as a DFA:
// -? (0 | [1-9][0-9]*) (\. [0-9]+)? ([eE] [+-]? [0-9]+)?
func refNumberGrammar(b []byte) bool {
	const (
		sStart = iota
		sMinus
		sZero
		sInt
		sDot
		sFrac
		sE
		sESign
		sExp
	)
	st := sStart
	for _, c := range b {
		d := c >= '0' && c <= '9'
		switch st {
		case sStart:
			if c == '-' {
				st = sMinus
			} else if c == '0' {
				st = sZero
			} else if d {
				st = sInt
			} else {
				return false
			}
		case sMinus:
			if c == '0' {
				st = sZero
			} else if d {
				st = sInt
			} else {
				return false
			}
		case sZero:
			if c == '.' {
				st = sDot
			} else if c == 'e' || c == 'E' {
				st = sE
			} else {
				return false
			}
		case sInt:
			if d {
			} else if c == '.' {
				st = sDot
			} else if c == 'e' || c == 'E' {
				st = sE
			} else {
				return false
			}
		case sDot:
			if d {
				st = sFrac
			} else {
				return false
			}
		case sFrac:
			if d {
			} else if c == 'e' || c == 'E' {
				st = sE
			} else {
				return false
			}
		case sE:
			if c == '+' || c == '-' {
				st = sESign
			} else if d {
				st = sExp
			} else {
				return false
			}
		case sESign:
			if d {
				st = sExp
			} else {
				return false
			}
		case sExp:
			if !d {
				return false
			}
		}
	}
	return st == sZero || st == sInt || st == sFrac || st == sExp
}

// expDigitsAtMost reports whether the text has at most k digits after its
// first 'e'/'E' (sign not counted). The exponent value is the length of the
// expanded digit string, so harnesses bound it (stated bound, not a property
// of the code).
func expDigitsAtMost(b []byte, k int) bool {
	for i, c := range b {
		if c == 'e' || c == 'E' {
			n := 0
			for _, d := range b[i+1:] {
				if d >= '0' && d <= '9' {
					n++
				}
			}
			return n <= k
		}
	}
	return true
}

// VerifC13_Grammar: NewNumber accepts exactly the JSON number grammar, for
// every byte string up to N bytes.
func VerifC13_Grammar() {
	zzverif.Expect("accepted", "rejected")
	n := zzverif.IntRange("len", 0, zzverif.Bound("N", 5, 7))
	text := zzverif.Bytes("text", n)
	zzverif.Assume(expDigitsAtMost(text, 3))
	want := refNumberGrammar(text)
	zzverif.Known("C13-zero-mantissa-exponent", zeroMantissaWithExponent(text))
	num, err := NewNumber(bytes.NewBytes(text))
	zzverif.Assert((err == nil) == want, "accept iff JSON number grammar")
	if err == nil {
		zzverif.Reach("accepted")
		zzverif.Assert(num != nil, "accepted number is non-nil")
	} else {
		zzverif.Reach("rejected")
	}
}

// zeroMantissaWithExponent: -?0[eE]…  (known finding: rejected by NewNumber,
// pinned by the repository's own negative tests "0e0", "0e2").
func zeroMantissaWithExponent(b []byte) bool {
	i := 0
	if len(b) > 0 && b[0] == '-' {
		i = 1
	}
	return len(b) >= i+2 && b[i] == '0' && (b[i+1] == 'e' || b[i+1] == 'E')
}

// parseRef splits an accepted number text per the grammar.
func parseRef(b []byte) (neg bool, intDigits, fraDigits []byte, expNeg bool, expDigits []byte) {
	i := 0
	if i < len(b) && b[i] == '-' {
		neg = true
		i++
	}
	st := i
	for i < len(b) && b[i] >= '0' && b[i] <= '9' {
		i++
	}
	intDigits = b[st:i]
	if i < len(b) && b[i] == '.' {
		i++
		st = i
		for i < len(b) && b[i] >= '0' && b[i] <= '9' {
			i++
		}
		fraDigits = b[st:i]
	}
	if i < len(b) && (b[i] == 'e' || b[i] == 'E') {
		i++
		if i < len(b) && (b[i] == '+' || b[i] == '-') {
			expNeg = b[i] == '-'
			i++
		}
		expDigits = b[i:]
	}
	return
}

func smallInt(d []byte) int {
	r := 0
	for _, c := range d {
		r = r*10 + int(c-'0')
	}
	return r
}

// numberInv is the representation invariant of Number (DESIGN.md C13.2):
// digits only, 0 <= exp <= len(nat), no leading zero in the integer part,
// no trailing zero in the fraction, zero is the empty digit string without sign.
func numberInv(n *Number) bool {
	d := n.nat.Data()
	for _, c := range d {
		if c < '0' || c > '9' {
			return false
		}
	}
	if n.exp < 0 || n.exp > len(d) {
		return false
	}
	if len(d)-n.exp > 0 && d[0] == '0' {
		return false
	}
	if n.exp > 0 && d[len(d)-1] == '0' {
		return false
	}
	if len(d) == 0 && n.neg {
		return false // zero has no sign
	}
	return true
}

// VerifC13_Denotation: for every accepted text the Number denotes the value of
// the text and satisfies the representation invariant; String() denotes the
// same value and LengthOfFractionalPart() is the number of significant
// fraction digits.
func VerifC13_Denotation() {
	zzverif.Expect("accepted", "with-exponent", "with-fraction")
	n := zzverif.IntRange("len", 1, zzverif.Bound("N", 5, 7))
	text := zzverif.Bytes("text", n)
	zzverif.Assume(expDigitsAtMost(text, 3))
	num, err := NewNumber(bytes.NewBytes(text))
	if err != nil {
		return
	}
	zzverif.Reach("accepted")
	zzverif.Assume(refNumberGrammar(text))
	neg, id, fd, eneg, ed := parseRef(text)
	if len(ed) > 0 {
		zzverif.Reach("with-exponent")
	}
	if len(fd) > 0 {
		zzverif.Reach("with-fraction")
	}
	e := smallInt(ed)
	if eneg {
		e = -e
	}
	zzverif.Assert(numberInv(num), "representation invariant")
	// value(text) = M * 10^(e-f);  value(num) = NAT * 10^(-exp)
	mant := make([]byte, 0, len(id)+len(fd))
	mant = append(append(mant, id...), fd...)
	M := zzverif.IntOfDigits(mant)
	NAT := zzverif.IntOfDigits(num.nat.Data())
	sh := e - len(fd) + num.exp // M*10^(sh) == NAT
	if sh >= 0 {
		zzverif.Assert(M.MulPow10(sh).Eq(NAT), "denoted magnitude equals the text's")
	} else {
		zzverif.Assert(M.Eq(NAT.MulPow10(-sh)), "denoted magnitude equals the text's")
	}
	isZero := M.Eq(zzverif.IntConst(0))
	zzverif.Assert(isZero || num.neg == neg, "sign equals the text's")
	zzverif.Assert(int(num.LengthOfFractionalPart()) == num.exp, "LengthOfFractionalPart is the significant fraction length")
	// String(): [-] int [. fra] re-read with the reference
	str := []byte(num.String())
	zzverif.Assert(refNumberGrammar(str), "String() is a JSON number")
	sneg, sid, sfd, _, sed := parseRef(str)
	zzverif.Assert(len(sed) == 0, "String() has no exponent")
	smant := make([]byte, 0, len(sid)+len(sfd))
	smant = append(append(smant, sid...), sfd...)
	S := zzverif.IntOfDigits(smant)
	// S*10^-len(sfd) == NAT*10^-exp
	if len(sfd) >= num.exp {
		zzverif.Assert(S.Eq(NAT.MulPow10(len(sfd)-num.exp)), "String() denotes the same magnitude")
	} else {
		zzverif.Assert(S.MulPow10(num.exp-len(sfd)).Eq(NAT), "String() denotes the same magnitude")
	}
	zzverif.Assert(isZero || sneg == num.neg, "String() has the same sign")
}

func sign3(lt, eq bool) int {
	if eq {
		return 0
	}
	if lt {
		return -1
	}
	return 1
}

// mkNumber builds an arbitrary Number state of at most L digits.
func mkNumber(tag string, L int) *Number {
	ln := zzverif.IntRange(tag+".len", 0, L)
	d := make([]byte, ln)
	for i := range d {
		d[i] = zzverif.Digit(tag + ".d")
	}
	exp := zzverif.IntRange(tag+".exp", 0, ln)
	n := &Number{nat: bytes.NewBytes(d), exp: exp, neg: zzverif.Bool(tag + ".neg")}
	zzverif.Assume(numberInv(n))
	return n
}

// VerifC13_Compare: one step from an arbitrary valid state. Cmp, Equal and the
// four predicates agree with exact arithmetic on the denoted values, for all
// pairs of Numbers satisfying the invariant (which NewNumber establishes, see
// VerifC13_Denotation).
func VerifC13_Compare() {
	zzverif.Expect("lt", "eq", "gt")
	L := zzverif.Bound("L", 3, 4)
	a := mkNumber("a", L)
	b := mkNumber("b", L)
	A := zzverif.IntOfDigits(a.nat.Data()).MulPow10(b.exp)
	B := zzverif.IntOfDigits(b.nat.Data()).MulPow10(a.exp)
	if a.neg {
		A = A.Neg()
	}
	if b.neg {
		B = B.Neg()
	}
	want := sign3(A.Lt(B), A.Eq(B))
	got := a.Cmp(b)
	zzverif.Assert(got == want, "Cmp agrees with exact arithmetic")
	zzverif.Assert(a.Equal(b) == (want == 0), "Equal")
	zzverif.Assert(a.LessThan(b) == (want < 0), "LessThan")
	zzverif.Assert(a.LessThanOrEqual(b) == (want <= 0), "LessThanOrEqual")
	zzverif.Assert(a.GreaterThan(b) == (want > 0), "GreaterThan")
	zzverif.Assert(a.GreaterThanOrEqual(b) == (want >= 0), "GreaterThanOrEqual")
	switch want {
	case -1:
		zzverif.Reach("lt")
	case 0:
		zzverif.Reach("eq")
	default:
		zzverif.Reach("gt")
	}
}

// VerifC13_ExponentRange: concrete exponents (small, multi-digit, 19-20 digits
// that overflow machine integers) around a symbolic one-digit mantissa:
// NewNumber returns a value or an error (never panics), and an accepted text
// denotes its value.
func VerifC13_ExponentRange() {
	zzverif.Expect("accepted", "rejected")
	exps := []string{"0", "1", "9", "10", "20", "300", "-1", "-10", "-300", "+7",
		"99999999999999999", "9999999999999999999", "-9999999999999999999",
		"18446744073709551617", "18446744073709551616", "-18446744073709551617", "9223372036854775808"}
	k := zzverif.IntRange("exp", 0, len(exps)-1)
	d := zzverif.Digit("d")
	zzverif.Assume(d != '0')
	withFrac := zzverif.Bool("frac")
	text := []byte{d}
	if withFrac {
		text = append(text, '.', zzverif.Digit("f"))
	}
	text = append(text, 'e')
	text = append(text, exps[k]...)
	num, err := NewNumber(bytes.NewBytes(text))
	if err != nil {
		zzverif.Reach("rejected")
		// only exponents whose expansion is unreasonable may be refused
		zzverif.Assert(len(exps[k]) >= 17, "small exponents are accepted")
		return
	}
	zzverif.Reach("accepted")
	zzverif.Assert(numberInv(num), "representation invariant")
	zzverif.Assert(len(exps[k]) < 17, "an exponent that does not fit is not silently wrapped")
	_, id, fd, eneg, ed := parseRef(text)
	e := smallInt(ed)
	if eneg {
		e = -e
	}
	mant := append(append([]byte{}, id...), fd...)
	M := zzverif.IntOfDigits(mant)
	NAT := zzverif.IntOfDigits(num.nat.Data())
	sh := e - len(fd) + num.exp
	if sh >= 0 {
		zzverif.Assert(M.MulPow10(sh).Eq(NAT), "denoted magnitude equals the text's")
	} else {
		zzverif.Assert(M.Eq(NAT.MulPow10(-sh)), "denoted magnitude equals the text's")
	}
}

// VerifC13_CompareLong: concrete long operands - 19 to 21 digit integer parts
// around 2^63, 2^64 and 10^20, also written with exponents - against each
// other and against the same values +-1: Cmp and the predicates agree with
// exact integer arithmetic (the short symbolic operands of VerifC13_Compare
// never leave the range of a machine word).
func VerifC13_CompareLong() {
	zzverif.Expect("lt", "eq", "gt")
	texts := []string{
		"18446744073709551615", "18446744073709551616", "18446744073709551614", "9223372036854775807", "9223372036854775808",
		"99999999999999999999", "20000000000000000000", "2E+19", "2e19", "1.8446744073709551615e19", "100000000000000000000", "1e20", "99999999999999999999.5",
		"10000000000000000000", "9999999999999999999", "-18446744073709551616", "-2E+19", "-99999999999999999999",
	}
	ta := texts[zzverif.IntRange("a", 0, len(texts)-1)]
	tb := texts[zzverif.IntRange("b", 0, len(texts)-1)]
	a, ea := NewNumber(bytes.NewBytes(ta))
	b, eb := NewNumber(bytes.NewBytes(tb))
	zzverif.Assert(ea == nil && eb == nil, "long numbers are accepted")
	if ea != nil || eb != nil {
		return
	}
	A := zzverif.IntOfDigits(a.nat.Data()).MulPow10(b.exp)
	B := zzverif.IntOfDigits(b.nat.Data()).MulPow10(a.exp)
	if a.neg {
		A = A.Neg()
	}
	if b.neg {
		B = B.Neg()
	}
	want := sign3(A.Lt(B), A.Eq(B))
	zzverif.Assert(a.Cmp(b) == want, "Cmp agrees with exact integer arithmetic on long operands")
	zzverif.Assert(a.Equal(b) == (want == 0) && a.LessThan(b) == (want < 0) && a.GreaterThan(b) == (want > 0), "the predicates agree with Cmp")
	switch want {
	case -1:
		zzverif.Reach("lt")
	case 0:
		zzverif.Reach("eq")
	default:
		zzverif.Reach("gt")
	}
}
