package json

import (
	"github.com/jsightapi/jsight-schema-core/bytes"
	"github.com/jsightapi/jsight-schema-core/zzverif"
)

// refNumberGrammar is the JSON number grammar (DESIGN.md B.1) as a DFA:
// -? (0 | [1-9][0-9]*) (\. [0-9]+)? ([eE] [+-]? [0-9]+)?
func refNumberGrammar(b []byte) bool {
	const (
		sStart = iota
		sMinus
		sZero
		sInt
		sDot
		sFrac
		sE
		sESign
		sExp
	)
	st := sStart
	for _, c := range b {
		d := c >= '0' && c <= '9'
		switch st {
		case sStart:
			if c == '-' {
				st = sMinus
			} else if c == '0' {
				st = sZero
			} else if d {
				st = sInt
			} else {
				return false
			}
		case sMinus:
			if c == '0' {
				st = sZero
			} else if d {
				st = sInt
			} else {
				return false
			}
		case sZero:
			if c == '.' {
				st = sDot
			} else if c == 'e' || c == 'E' {
				st = sE
			} else {
				return false
			}
		case sInt:
			if d {
			} else if c == '.' {
				st = sDot
			} else if c == 'e' || c == 'E' {
				st = sE
			} else {
				return false
			}
		case sDot:
			if d {
				st = sFrac
			} else {
				return false
			}
		case sFrac:
			if d {
			} else if c == 'e' || c == 'E' {
				st = sE
			} else {
				return false
			}
		case sE:
			if c == '+' || c == '-' {
				st = sESign
			} else if d {
				st = sExp
			} else {
				return false
			}
		case sESign:
			if d {
				st = sExp
			} else {
				return false
			}
		case sExp:
			if !d {
				return false
			}
		}
	}
	return st == sZero || st == sInt || st == sFrac || st == sExp
}

// VerifC13_Grammar: NewNumber accepts exactly the JSON number grammar, for
// every byte string up to N bytes.
func VerifC13_Grammar() {
	zzverif.Expect("accepted", "rejected")
	n := zzverif.IntRange("len", 0, zzverif.Bound("N", 5, 7))
	text := zzverif.Bytes("text", n)
	want := refNumberGrammar(text)
	num, err := NewNumber(bytes.NewBytes(text))
	zzverif.Assert((err == nil) == want, "accept iff JSON number grammar")
	if err == nil {
		zzverif.Reach("accepted")
		zzverif.Assert(num != nil, "accepted number is non-nil")
	} else {
		zzverif.Reach("rejected")
	}
}
