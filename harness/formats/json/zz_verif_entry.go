package json

import (
	"io"

	"github.com/jsightapi/jsight-schema-core/zzverif"
	"github.com/jsightapi/jsight-schema-core/zzverif/zzdiag"
)

func vDocText() []byte {
	fam := zzverif.IntRange("family", 0, 2)
	if fam == 2 {
		// single-byte mutation: a corpus text with ONE byte, at any position,
		// replaced by an arbitrary byte
		doc := []byte(vCorpus[zzverif.IntRange("doc", 0, len(vCorpus)-1)])
		zzverif.Assume(len(doc) > 0)
		doc[zzverif.IntRange("at", 0, len(doc)-1)] = zzverif.Byte("byte")
		return doc
	}
	if fam == 0 {
		n := zzverif.IntRange("len", 0, zzverif.Bound("N", 4, 5))
		return zzverif.Bytes("text", n)
	}
	d := zzverif.IntRange("doc", 0, len(vCorpus)-1)
	doc := vCorpus[d]
	cut := zzverif.IntRange("cut", 0, len(doc))
	k := zzverif.IntRange("k", 0, zzverif.Bound("K", 1, 2))
	return append([]byte(doc[:cut]), zzverif.Bytes("tail", k)...)
}

func vDocEntryPoints(text []byte, diag bool) {
	var opts []Option
	if zzverif.Bool("allowTrailing") {
		opts = append(opts, AllowTrailingNonSpaceCharacters())
	}
	n, err := New("d", text, opts...).Len()
	if diag {
		zzdiag.Diag(err, len(text))
	}
	if err == nil {
		zzverif.Assert(int(n) <= len(text), "Len() never exceeds the text")
	}
	err = New("d", text, opts...).Check()
	if diag {
		zzdiag.Diag(err, len(text))
	}
	if err == nil {
		zzverif.Reach("accepted")
	}
	d := New("d", text, opts...)
	for i := 0; i < 4*len(text)+8; i++ {
		_, e := d.NextLexeme()
		if e == io.EOF {
			break
		}
		if e != nil {
			if diag {
				zzdiag.Diag(e, len(text))
			}
			break
		}
	}
}

// VerifC02_JSONDocument: Len, Check and the NextLexeme loop on every text of
// up to N bytes and on corpus prefixes followed by K arbitrary bytes.
func VerifC02_JSONDocument() {
	zzverif.Expect("accepted")
	zzverif.BoundIsViolation()
	vDocEntryPoints(vDocText(), false)
}

// VerifC16_JSONDocument: same inputs; every rejection is a well-formed diagnostic.
func VerifC16_JSONDocument() {
	zzverif.Expect("accepted", "rejected")
	vDocEntryPoints(vDocText(), true)
}
