package json

import (
	"io"

	"github.com/jsightapi/jsight-schema-core/lexeme"
	"github.com/jsightapi/jsight-schema-core/zzverif"
)

// ---- reference: RFC 8259 recogniser producing a structural event list (DESIGN.md B.2) ----

const (
	vObjBegin = 1 + iota
	vObjEnd
	vArrBegin
	vArrEnd
	vKey
	vLiteral
)

type vEv struct {
	kind, begin, end int
}

type vParser struct {
	b  []byte
	i  int
	ev []vEv
	// numberCut: the parse failed inside a number although a proper prefix of
	// the number was already complete (e.g. "1e", "1.x") - ambiguous under the
	// trailing-characters option
	numberCut bool
}

func vBlank(c byte) bool { return c == ' ' || c == '\t' || c == '\n' || c == '\r' }
func vDigit(c byte) bool { return c >= '0' && c <= '9' }
func vHex(c byte) bool {
	return vDigit(c) || (c >= 'a' && c <= 'f') || (c >= 'A' && c <= 'F')
}

func (p *vParser) ws() {
	for p.i < len(p.b) && vBlank(p.b[p.i]) {
		p.i++
	}
}

func (p *vParser) str() bool {
	// p.b[p.i] == '"'
	p.i++
	for p.i < len(p.b) {
		c := p.b[p.i]
		switch {
		case c == '"':
			p.i++
			return true
		case c == '\\':
			p.i++
			if p.i >= len(p.b) {
				return false
			}
			e := p.b[p.i]
			switch e {
			case '"', '\\', '/', 'b', 'f', 'n', 'r', 't':
				p.i++
			case 'u':
				p.i++
				for k := 0; k < 4; k++ {
					if p.i >= len(p.b) || !vHex(p.b[p.i]) {
						return false
					}
					p.i++
				}
			default:
				return false
			}
		case c < 0x20:
			return false
		default:
			p.i++
		}
	}
	return false
}

func (p *vParser) num() bool {
	if p.b[p.i] == '-' {
		p.i++
		if p.i >= len(p.b) {
			return false
		}
	}
	switch {
	case p.b[p.i] == '0':
		p.i++
	case p.b[p.i] >= '1' && p.b[p.i] <= '9':
		for p.i < len(p.b) && vDigit(p.b[p.i]) {
			p.i++
		}
	default:
		return false
	}
	if p.i < len(p.b) && p.b[p.i] == '.' {
		p.i++
		if p.i >= len(p.b) || !vDigit(p.b[p.i]) {
			p.numberCut = true
			return false
		}
		for p.i < len(p.b) && vDigit(p.b[p.i]) {
			p.i++
		}
	}
	if p.i < len(p.b) && (p.b[p.i] == 'e' || p.b[p.i] == 'E') {
		p.i++
		if p.i < len(p.b) && (p.b[p.i] == '+' || p.b[p.i] == '-') {
			p.i++
		}
		if p.i >= len(p.b) || !vDigit(p.b[p.i]) {
			p.numberCut = true
			return false
		}
		for p.i < len(p.b) && vDigit(p.b[p.i]) {
			p.i++
		}
	}
	return true
}

func (p *vParser) word(w string) bool {
	if p.i+len(w) > len(p.b) {
		return false
	}
	for k := 0; k < len(w); k++ {
		if p.b[p.i+k] != w[k] {
			return false
		}
	}
	p.i += len(w)
	return true
}

func (p *vParser) value(depth int) bool {
	p.ws()
	if p.i >= len(p.b) || depth > 8 {
		return false
	}
	start := p.i
	c := p.b[p.i]
	switch {
	case c == '{':
		p.ev = append(p.ev, vEv{vObjBegin, start, start})
		p.i++
		p.ws()
		if p.i < len(p.b) && p.b[p.i] == '}' {
			p.ev = append(p.ev, vEv{vObjEnd, start, p.i})
			p.i++
			return true
		}
		for {
			p.ws()
			if p.i >= len(p.b) || p.b[p.i] != '"' {
				return false
			}
			ks := p.i
			if !p.str() {
				return false
			}
			p.ev = append(p.ev, vEv{vKey, ks, p.i - 1})
			p.ws()
			if p.i >= len(p.b) || p.b[p.i] != ':' {
				return false
			}
			p.i++
			if !p.value(depth + 1) {
				return false
			}
			p.ws()
			if p.i >= len(p.b) {
				return false
			}
			if p.b[p.i] == ',' {
				p.i++
				continue
			}
			if p.b[p.i] == '}' {
				p.ev = append(p.ev, vEv{vObjEnd, start, p.i})
				p.i++
				return true
			}
			return false
		}
	case c == '[':
		p.ev = append(p.ev, vEv{vArrBegin, start, start})
		p.i++
		p.ws()
		if p.i < len(p.b) && p.b[p.i] == ']' {
			p.ev = append(p.ev, vEv{vArrEnd, start, p.i})
			p.i++
			return true
		}
		for {
			if !p.value(depth + 1) {
				return false
			}
			p.ws()
			if p.i >= len(p.b) {
				return false
			}
			if p.b[p.i] == ',' {
				p.i++
				continue
			}
			if p.b[p.i] == ']' {
				p.ev = append(p.ev, vEv{vArrEnd, start, p.i})
				p.i++
				return true
			}
			return false
		}
	case c == '"':
		if !p.str() {
			return false
		}
	case c == '-' || vDigit(c):
		if !p.num() {
			return false
		}
	case c == 't':
		if !p.word("true") {
			return false
		}
	case c == 'f':
		if !p.word("false") {
			return false
		}
	case c == 'n':
		if !p.word("null") {
			return false
		}
	default:
		return false
	}
	p.ev = append(p.ev, vEv{vLiteral, start, p.i - 1})
	return true
}

// vParse: ok, end of the value (index after its last byte), events.
func vParse(b []byte, allowTrailing bool) (ok bool, end int, ev []vEv, ambiguous bool) {
	p := &vParser{b: b}
	if !p.value(0) {
		return false, 0, nil, p.numberCut
	}
	end = p.i
	p.ws()
	if p.i < len(b) && !allowTrailing {
		return false, 0, nil, false
	}
	return true, end, p.ev, false
}

// ---- the real scanner driven through the public API ----

// vLexemes collects the structural events of the lexeme stream and checks its
// well-formedness (proper nesting with the harness's own stack, spans inside
// the content).
func vLexemes(text []byte, opts []Option) (ev []vEv, wellFormed bool, err error) {
	d := New("doc", text, opts...)
	var stack []lexeme.LexEventType
	wellFormed = true
	for {
		lex, e := d.NextLexeme()
		if e != nil {
			if e == io.EOF {
				if len(stack) != 0 {
					wellFormed = false
				}
				return ev, wellFormed, nil
			}
			return nil, wellFormed, e
		}
		t := lex.Type()
		b, en := int(lex.Begin()), int(lex.End())
		if b < 0 || en < b || en >= len(text) {
			wellFormed = false
		}
		if t.IsOpening() {
			stack = append(stack, t)
			switch t {
			case lexeme.ObjectBegin:
				ev = append(ev, vEv{vObjBegin, b, en})
			case lexeme.ArrayBegin:
				ev = append(ev, vEv{vArrBegin, b, en})
			}
			continue
		}
		if len(stack) == 0 {
			wellFormed = false
			continue
		}
		top := stack[len(stack)-1]
		stack = stack[:len(stack)-1]
		switch t {
		case lexeme.LiteralEnd:
			if top != lexeme.LiteralBegin {
				wellFormed = false
			}
			ev = append(ev, vEv{vLiteral, b, en})
		case lexeme.ObjectEnd:
			if top != lexeme.ObjectBegin {
				wellFormed = false
			}
			ev = append(ev, vEv{vObjEnd, b, en})
		case lexeme.ArrayEnd:
			if top != lexeme.ArrayBegin {
				wellFormed = false
			}
			ev = append(ev, vEv{vArrEnd, b, en})
		case lexeme.ObjectKeyEnd:
			if top != lexeme.ObjectKeyBegin {
				wellFormed = false
			}
			// a key is reported as one key-begin/key-end pair spanning the
			// quoted string
			ev = append(ev, vEv{vKey, b, en})
		case lexeme.ObjectValueEnd:
			if top != lexeme.ObjectValueBegin {
				wellFormed = false
			}
		case lexeme.ArrayItemEnd:
			if top != lexeme.ArrayItemBegin {
				wellFormed = false
			}
		default:
			wellFormed = false
		}
	}
}

func vSameEvents(a, b []vEv) bool {
	if len(a) != len(b) {
		return false
	}
	for i := range a {
		if a[i] != b[i] {
			return false
		}
	}
	return true
}

// vCheckDocument states the whole of C12 for one text.
func vCheckDocument(text []byte, allowTrailing bool) {
	var opts []Option
	if allowTrailing {
		opts = append(opts, AllowTrailingNonSpaceCharacters())
	}
	want, end, wantEv, ambiguous := vParse(text, allowTrailing)
	if allowTrailing && ambiguous {
		// "1e", "1.x": a JSON value ("1") followed by something, or an
		// unfinished number? Not specified; no claim.
		return
	}
	err := New("doc", text, opts...).Check()
	zzverif.Assert((err == nil) == want, "Check() accepts exactly RFC 8259 JSON")
	if err != nil {
		zzverif.Reach("rejected")
		return
	}
	zzverif.Reach("accepted")
	n, lerr := New("doc", text, opts...).Len()
	zzverif.Assert(lerr == nil, "Len() succeeds on an accepted document")
	zzverif.Assert(int(n) == end, "Len() is the end of the value without trailing blanks")
	ev, wf, serr := vLexemes(text, opts)
	zzverif.Assert(serr == nil, "the lexeme stream of an accepted document ends with EOF")
	zzverif.Assert(wf, "the lexeme stream is properly nested and its spans lie inside the content")
	zzverif.Assert(vSameEvents(ev, wantEv), "the tree rebuilt from the lexeme stream equals the reference decoder's")
}

// VerifC12_Language: every byte string up to N bytes, with and without the
// trailing-characters option.
func VerifC12_Language() {
	zzverif.Expect("accepted", "rejected")
	n := zzverif.IntRange("len", 0, zzverif.Bound("N", 4, 6))
	text := zzverif.Bytes("text", n)
	vCheckDocument(text, zzverif.Bool("allowTrailing"))
}

var vCorpus = []string{
	`{"a":1,"b":[true,false,null],"c":{"d":"e"}}`,
	` [ 1 , 2.5e-3 , -0 , "xé\n" , {} , [] ] `,
	`{"k" : "v\\\"" , "n" : -12.0E+7}`,
	"[\n\t\"a\" ,\r\n 0.1 ]",
	`"str"`, `-1.5e+10`, `true`, `false`, `null`, `0`,
	`[1e+23,4E-10,"a\/b"]`, // exponents of two digits (a mutated digit can become a second sign) and the \/ escape
}

// VerifC12_Probe: every prefix of every corpus document followed by K
// arbitrary bytes and end of input: each scanner state reached by the corpus
// is crossed with every byte class and with EOF, independent of document length.
func VerifC12_Probe() {
	zzverif.Expect("accepted", "rejected")
	d := zzverif.IntRange("doc", 0, len(vCorpus)-1)
	doc := vCorpus[d]
	cut := zzverif.IntRange("cut", 0, len(doc))
	k := zzverif.IntRange("k", 0, zzverif.Bound("K", 1, 2))
	text := append([]byte(doc[:cut]), zzverif.Bytes("tail", k)...)
	vCheckDocument(text, zzverif.Bool("allowTrailing"))
}

// VerifC12_Mutation: every corpus document with ONE byte, at any position,
// replaced by an arbitrary byte: accepted iff the mutated text is RFC 8259,
// and then the lexeme stream rebuilds it (single-token mutations reach scanner
// states in the MIDDLE of long documents that short texts and truncations do
// not: closing brackets, separators and escapes after the fault).
func VerifC12_Mutation() {
	zzverif.Expect("accepted", "rejected")
	doc := []byte(vCorpus[zzverif.IntRange("doc", 0, len(vCorpus)-1)])
	doc[zzverif.IntRange("at", 0, len(doc)-1)] = zzverif.Byte("byte")
	vCheckDocument(doc, zzverif.Bool("allowTrailing"))
}

// VerifC12_LenAfterUse: Len() (and Check()) of a document do not depend on
// what was done with the same object before: reading its whole lexeme stream,
// reading part of it, or checking it.
func VerifC12_LenAfterUse() {
	zzverif.Expect("same")
	d := zzverif.IntRange("doc", 0, len(vCorpus)-1)
	text := append([]byte(vCorpus[d]), zzverif.Bytes("tail", zzverif.IntRange("k", 0, 1))...)
	var opts []Option
	if zzverif.Bool("allowTrailing") {
		opts = append(opts, AllowTrailingNonSpaceCharacters())
	}
	n1, e1 := New("d", text, opts...).Len()
	c1 := New("d", text, opts...).Check()
	doc := New("d", text, opts...)
	reads := []int{0, 1, 3, 1000}[zzverif.IntRange("reads", 0, 3)]
	for i := 0; i < reads; i++ {
		if _, err := doc.NextLexeme(); err != nil {
			break
		}
	}
	if zzverif.Bool("checkFirst") {
		_ = doc.Check()
	}
	n2, e2 := doc.Len()
	zzverif.Assert((e1 == nil) == (e2 == nil) && n1 == n2, "Len() does not depend on earlier use of the document")
	c2 := doc.Check()
	zzverif.Assert((c1 == nil) == (c2 == nil), "Check() does not depend on earlier use of the document")
	zzverif.Reach("same")
}
