package json

import (
	"github.com/jsightapi/jsight-schema-core/zzverif"
)

// VerifC15_DocumentFollow: with the trailing-characters option, Len() of a
// JSON document is not moved by text that follows the value on a new line.
func VerifC15_DocumentFollow() {
	zzverif.Expect("same")
	d := zzverif.Digit("d")
	s := zzverif.OneOf("s", "ab ./#")
	var S []byte
	switch zzverif.IntRange("doc", 0, 4) {
	case 0:
		S = []byte{'{', '"', s, '"', ':', d, '}'}
	case 1:
		S = []byte{'[', d, ',', '"', s, '"', ']'}
	case 2:
		S = []byte{'"', s, '"'}
	case 3:
		S = []byte{d, '.', d}
	default:
		S = []byte("null")
	}
	n, err := New("d", S, AllowTrailingNonSpaceCharacters()).Len()
	zzverif.Assert(err == nil && int(n) == len(S), "Len() of a complete document is its length")
	nl := []string{"\n", "\r", "\r\n"}[zzverif.IntRange("nl", 0, 2)]
	c := zzverif.Byte("first")
	zzverif.Assume(c != ' ' && c != '\t' && c != '\n' && c != '\r')
	k := zzverif.IntRange("restLen", 0, zzverif.Bound("rest", 1, 2))
	T := append(append(append([]byte{}, S...), nl...), c)
	T = append(T, zzverif.Bytes("rest", k)...)
	m, merr := New("t", T, AllowTrailingNonSpaceCharacters()).Len()
	zzverif.Assert(merr == nil && m == n, "what follows on a new line never moves the boundary")
	zzverif.Reach("same")
}
