package rsoac

import (
	"github.com/jsightapi/jsight-schema-core/notations/regex"
	"github.com/jsightapi/jsight-schema-core/zzverif"
)

var vPatterns = []string{"a", "[a-z]+", "a\\/b", "\\\\", "\\d{2}", "x\"y", ""}

// VerifC18_OpenAPIPattern: the OpenAPI object of an accepted regex schema
// carries exactly the pattern (struct level; the pattern's JSON text is the
// JSON string encoding of the pattern).
func VerifC18_OpenAPIPattern() {
	zzverif.Expect("converted")
	p := vPatterns[zzverif.IntRange("pattern", 0, len(vPatterns)-1)]
	rs := regex.New("r", "/"+p+"/")
	if rs.Check() != nil {
		return
	}
	zzverif.Reach("converted")
	o := New(rs)
	zzverif.Assert(o.root.Type == "string", "type is string")
	zzverif.Assert(o.root.Pattern.value == "/"+p+"/", "the converter keeps the delimited pattern")
	got := string(o.root.Pattern.jsonValue())
	zzverif.Observe("json", got)
	// JSON string encoding of p: quotes, backslash and double quote escaped
	want := "\""
	for i := 0; i < len(p); i++ {
		switch p[i] {
		case '"':
			want += "\\\""
		case '\\':
			want += "\\\\"
		default:
			want += string(p[i])
		}
	}
	want += "\""
	zzverif.Assert(got == want, "the OpenAPI pattern is the JSON string of exactly the pattern")
}
