package rsoac

import (
	"github.com/jsightapi/jsight-schema-core/notations/regex"
	"github.com/jsightapi/jsight-schema-core/zzverif"
	"github.com/jsightapi/jsight-schema-core/zzverif/zzjson"
)

var vPatterns = []string{"a", "[a-z]+", "a\\/b", "\\\\", "\\d{2}", "x\"y", "",
	"a\x7fb", "[\x01-\x1f]+", "a\vb", "\a|\b", "<&>", "\t\n", "é|€|😀", "\\/"} // raw control bytes, DEL, HTML-sensitive and non-ASCII characters

// VerifC18_OpenAPIPattern: the OpenAPI object of an accepted regex schema
// carries exactly the pattern (struct level; the pattern's JSON text is the
// JSON string encoding of the pattern).
func VerifC18_OpenAPIPattern() {
	zzverif.Expect("converted")
	p := vPatterns[zzverif.IntRange("pattern", 0, len(vPatterns)-1)]
	rs := regex.New("r", "/"+p+"/")
	if rs.Check() != nil {
		return
	}
	zzverif.Reach("converted")
	o := New(rs)
	zzverif.Assert(o.root.Type == "string", "type is string")
	zzverif.Assert(o.root.Pattern.value == "/"+p+"/", "the converter keeps the delimited pattern")
	got := string(o.root.Pattern.jsonValue())
	zzverif.Observe("json", got)
	// whatever escapes the encoder prefers: the text is ONE JSON string that
	// decodes (reference decoder) to exactly the pattern
	evs, ok := zzjson.Decode([]byte(got))
	zzverif.Assert(ok && len(evs) == 1 && evs[0].Kind == 's' && evs[0].Val == p, "the OpenAPI pattern is a JSON string that decodes to exactly the pattern")
}
