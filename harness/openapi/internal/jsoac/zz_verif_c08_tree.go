package jsoac

import (
	"regexp"

	"github.com/jsightapi/jsight-schema-core/notations/jschema"
	"github.com/jsightapi/jsight-schema-core/zzverif"
	"github.com/jsightapi/jsight-schema-core/zzverif/zzjson"
)

// ---- JSON value tree built from the reference decoder's event list ----

type oVal struct {
	kind  byte // { [ s n t f z
	val   string
	keys  []string
	items []*oVal
}

func oTree(evs []zzjson.Ev, i int) (*oVal, int) {
	e := evs[i]
	switch e.Kind {
	case '{':
		v := &oVal{kind: '{'}
		i++
		for evs[i].Kind != '}' {
			v.keys = append(v.keys, evs[i].Val) // 'k'
			var c *oVal
			c, i = oTree(evs, i+1)
			v.items = append(v.items, c)
		}
		return v, i + 1
	case '[':
		v := &oVal{kind: '['}
		i++
		for evs[i].Kind != ']' {
			var c *oVal
			c, i = oTree(evs, i)
			v.items = append(v.items, c)
		}
		return v, i + 1
	}
	return &oVal{kind: e.Kind, val: e.Val}, i + 1
}

func oRender(v *oVal) []byte {
	// only used for scalars handed to the primitive evaluator
	switch v.kind {
	case 's':
		out := []byte{'"'}
		for i := 0; i < len(v.val); i++ {
			c := v.val[i]
			if c == '"' || c == '\\' {
				out = append(out, '\\')
			}
			out = append(out, c)
		}
		return append(out, '"')
	case 'n':
		return []byte(v.val)
	case 't':
		return []byte("true")
	case 'f':
		return []byte("false")
	}
	return []byte("null")
}

func oIsNullable(n *Nullable) bool { return n != nil && string(n.value) == "true" }

// oValidNode: is the value a valid instance of the Schema Object tree rooted
// at node? types maps "@name" to the conversion of the registered type.
func oValidNode(node Node, v *oVal, types map[string]Node, depth int) bool {
	if depth > 12 {
		return false
	}
	switch n := node.(type) {
	case *Primitive:
		if v.kind == '{' || v.kind == '[' {
			return false
		}
		return oValid(n, oRender(v))
	case *Null:
		return v.kind == 'z'
	case *Any:
		return true
	case *Object:
		if v.kind == 'z' && oIsNullable(n.Nullable) {
			return true
		}
		if v.kind != '{' {
			return false
		}
		for _, req := range n.Required {
			found := false
			for _, k := range v.keys {
				if k == req {
					found = true
				}
			}
			if !found {
				return false
			}
		}
		for i, k := range v.keys {
			declared := false
			for _, p := range n.Properties.properties {
				if p.key == k {
					declared = true
					if !oValidNode(p.value, v.items[i], types, depth+1) {
						return false
					}
				}
			}
			// additionalProperties only looks at the `properties` of the SAME
			// Schema Object (JSON Schema: not at those of allOf subschemas).
			// Modes this evaluator does not model count as "anything goes".
			if !declared && n.AdditionalProperties != nil {
				switch n.AdditionalProperties.mode {
				case additionalPropertiesFalse:
					return false
				case additionalPropertiesUserType:
					t, ok := types[n.AdditionalProperties.userTypeName]
					if !ok || !oValidNode(t, v.items[i], types, depth+1) {
						return false
					}
				}
			}
		}
		// allOf: the value is an instance of every referenced conversion as well
		if n.AllOf != nil {
			for _, name := range n.AllOf.userTypeNames {
				t, ok := types[name]
				if !ok || !oValidNode(t, v, types, depth+1) {
					return false
				}
			}
		}
		return true
	case *Array:
		if v.kind == 'z' && oIsNullable(n.Nullable) {
			return true
		}
		if v.kind != '[' {
			return false
		}
		if n.MinItems != nil && int64(len(v.items)) < *n.MinItems {
			return false
		}
		if n.MaxItems != nil && int64(len(v.items)) > *n.MaxItems {
			return false
		}
		for _, it := range v.items {
			ok := false
			for _, s := range n.Items.items {
				if oValidNode(s.value, it, types, depth+1) {
					ok = true
				}
			}
			if !ok {
				return false
			}
		}
		return true
	case *Or:
		if v.kind == 'z' && oIsNullable(n.Nullable) {
			return true
		}
		for _, alt := range n.AnyOf {
			if oValidNode(alt, v, types, depth+1) {
				return true
			}
		}
		return false
	case *Ref:
		if v.kind == 'z' && oIsNullable(n.Nullable) {
			return true
		}
		t, ok := types[n.UserType.name]
		return ok && oValidNode(t, v, types, depth+1)
	}
	return false
}

// VerifC08_Trees: objects (required and optional members), arrays (several
// item kinds, minItems/maxItems), `or` alternatives and references to
// registered types: when Check() accepts the project, Example() is a valid
// instance of the generated Schema Object tree with references resolved to
// the conversions of the registered types.
func VerifC08_Trees() {
	zzverif.Expect("accepted")
	d := string([]byte{zzverif.Digit("d")})
	e := string([]byte{zzverif.Digit("e")})
	c := string([]byte{zzverif.OneOf("c", "ab ")})
	var text string
	tU := `"` + c + `"`
	nullableRoot := false
	switch zzverif.IntRange("shape", 0, 17) {
	case 0:
		text = "{\n  \"a\": " + d + ", // {min: " + e + "}\n  \"b\": \"" + c + "\", // {optional: true}\n  \"c\": [" + d + ", \"" + c + "\"]\n}"
	case 1:
		text = "[ // {minItems: " + d + ", maxItems: " + e + "}\n  " + d + ",\n  \"" + c + "\",\n  {\"k\": true}\n]"
	case 2:
		text = d + ` // {or: [{type: "integer", min: ` + e + `}, {type: "string"}]}`
	case 3:
		text = `{"r": @t, "s": [@t, ` + d + `], "u": @t | @u}`
	case 4:
		text = `{"n": null, "o": {"p": ` + d + `.5}} // {nullable: true}`
		nullableRoot = true
	case 8: // a nullable choice / reference in the shortcut spelling
		text = `@t | @u // {nullable: true}`
		nullableRoot = true
	case 9:
		text = `@t // {nullable: true}`
		nullableRoot = true
	case 17: // a key shortcut that is NOT the last member
		text = `{@u: ` + d + `, "x": "` + c + `"}`
		tU = `"abc-1"`
	case 15: // a type that refers to itself through a NULLABLE (but required) member
		text = `{"x": @u}`
		tU = "{\n  \"v\": " + d + ",\n  \"next\": @u // {nullable: true}\n}"
	case 16: // const inside an `or` alternative (there is no example it could pin)
		text = `"` + c + `" // {or: [{type: "string", const: ` + []string{"true", "false"}[zzverif.IntRange("const", 0, 1)] + `}, {type: "integer"}]}`
	case 12: // two alternatives of the SAME type: both must survive in anyOf
		text = d + ` // {or: [{type: "integer", max: ` + e + `}, {type: "integer", min: ` + e + `}]}`
	case 13: // a null example under an `or` rule
		text = []string{`null // {or: ["null", "@t"]}`, `null // {or: [{type: "null"}, {type: "string"}]}`, `{"n": null} // {or: [{type: "object"}, {type: "null"}]}`}[zzverif.IntRange("nullOr", 0, 2)]
	case 14: // a key shortcut whose type is an alias of, or a choice between, string types
		text = `{@u: ` + d + `}`
		tU = []string{`@s`, `@s | @s2`}[zzverif.IntRange("keyAlias", 0, 1)]
	case 11: // a key shortcut whose type is a string with escapes at its ends
		text = `{@u: ` + d + `}`
		tU = []string{`"ab\""`, `"\"ab"`, `"a\\"`, `"\u0041\n"`, `"` + c + `\/"`}[zzverif.IntRange("keyType", 0, 4)]
	case 10: // QUOTED keys that look like type names are ordinary members
		text = `{"@t": ` + d + `, "@": "` + c + `", "z": {"@u": true}}`
	case 5:
		text = `[]`
	case 6: // an object with additional properties of a registered type
		text = `{"p": ` + d + `} // {additionalProperties: "@t"}`
	default: // inheritance: own + inherited members, additionalProperties written or not on either side
		apHeir := zzverif.IntRange("apHeir", 0, 1)     // 0 absent, 1 true
		apParent := zzverif.IntRange("apParent", 0, 1) // 0 absent, 1 true
		rules := `allOf: "@u"`
		if apHeir == 1 {
			rules += `, additionalProperties: true`
		}
		text = "{ // {" + rules + "}\n  \"own\": " + d + "\n}"
		tU = `{"inh": "` + c + `"}`
		if apParent == 1 {
			tU += ` // {additionalProperties: true}`
		}
		// the conversion writes `additionalProperties: false` for every object
		// that does not allow them, next to allOf: heir and parent then refuse
		// each other's members
		zzverif.Known("C08-allof-additional-properties-false", apHeir == 0 || apParent == 0)
	}
	tA := e + ` // {max: 9}`
	s := jschema.New("root", text)
	tt := jschema.New("@t", tA)
	tu := jschema.New("@u", tU)
	ts := jschema.New("@s", `"str"`)
	ts2 := jschema.New("@s2", `"zz"`)
	_ = s.AddType("@s", ts)
	_ = s.AddType("@s2", ts2)
	_ = tu.AddType("@u", tu) // ... or to itself
	_ = tu.AddType("@s", ts) // @u may itself refer to @s / @s2
	_ = tu.AddType("@s2", ts2)
	_ = s.AddType("@t", tt)
	_ = s.AddType("@u", tu)
	if s.Check() != nil {
		return
	}
	zzverif.Reach("accepted")
	ex, err := s.Example()
	zzverif.Assert(err == nil, "Example() succeeds for an accepted schema")
	evs, ok := zzjson.Decode(ex)
	zzverif.Assert(ok, "Example() is RFC 8259 JSON")
	if !ok {
		return
	}
	v, _ := oTree(evs, 0)
	ast, _ := s.GetAST()
	astT, _ := tt.GetAST()
	astU, _ := tu.GetAST()
	astS, _ := ts.GetAST()
	astS2, _ := ts2.GetAST()
	types := map[string]Node{"@t": newNode(astT), "@u": newNode(astU), "@s": newNode(astS), "@s2": newNode(astS2)}
	zzverif.Assert(oValidNode(newNode(ast), v, types, 0), "the example is a valid instance of the generated Schema Object tree")
	if nullableRoot {
		// one variation the schema's own rules accept: null for a nullable root
		zzverif.Assert(oValidNode(newNode(ast), &oVal{kind: 'z'}, types, 0), "null is a valid instance of the Schema Object of a nullable schema")
	}
}

// VerifC08_Pattern: `"example" // {regex: "..."}` over concrete patterns with
// escapes: the Schema Object's `pattern` is ONE JSON string that decodes to
// exactly the regular expression the rule denotes, and the example matches it
// (ECMA and RE2 agree on these patterns; the regexp engine is host code).
func VerifC08_Pattern() {
	zzverif.Expect("accepted")
	// spelling inside the annotation string / the pattern it denotes / an example spelling / its value
	table := [][4]string{
		{"^[a-c]+$", "^[a-c]+$", "abc", "abc"}, {"^x\\\\d$", "^x\\d$", "x1", "x1"}, {"^\\u0041$", "^A$", "A", "A"},
		{"^\\\"$", "^\"$", "\\\"", "\""}, {"^a\\\\.b$", "^a\\.b$", "a.b", "a.b"}, {"^\\\\\\\\$", "^\\\\$", "\\\\", "\\"},
		{"^<&>$", "^<&>$", "<&>", "<&>"}, {"^é€$", "^é€$", "é€", "é€"}, {"a\\tb", "a\tb", "a\\tb", "a\tb"}, {"^\\\\/$", "^\\/$", "/", "/"},
	}
	r := table[zzverif.IntRange("row", 0, len(table)-1)]
	s := jschema.New("root", `"`+r[2]+`" // {regex: "`+r[0]+`"}`)
	if s.Check() != nil {
		return
	}
	zzverif.Reach("accepted")
	ast, _ := s.GetAST()
	p, ok := newNode(ast).(*Primitive)
	zzverif.Assert(ok && p.Pattern != nil, "a string with a regex rule converts to a primitive with a pattern")
	if !ok || p.Pattern == nil {
		return
	}
	evs, isJSON := zzjson.Decode(p.Pattern.value)
	zzverif.Assert(isJSON && len(evs) == 1 && evs[0].Kind == 's' && evs[0].Val == r[1], "`pattern` is a JSON string that decodes to exactly the rule's regular expression")
	zzverif.Assert(regexp.MustCompile(r[1]).MatchString(r[3]), "the example is matched by the generated pattern")
}
