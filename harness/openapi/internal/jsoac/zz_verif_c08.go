package jsoac

import (
	"strconv"

	"github.com/jsightapi/jsight-schema-core/notations/jschema"
	"github.com/jsightapi/jsight-schema-core/zzverif"
	"github.com/jsightapi/jsight-schema-core/zzverif/zzjson"
)

// ---- a JSON-Schema evaluator over the converter's Go structs (Primitive) ----

type oNum struct {
	neg        bool
	intD, fraD []byte
	ok         bool
}

// oParse parses a decimal literal without exponent.
func oParse(b []byte) oNum {
	var n oNum
	i := 0
	if i < len(b) && b[i] == '-' {
		n.neg = true
		i++
	}
	st := i
	for i < len(b) && b[i] >= '0' && b[i] <= '9' {
		i++
	}
	n.intD = b[st:i]
	if i < len(b) && b[i] == '.' {
		i++
		st = i
		for i < len(b) && b[i] >= '0' && b[i] <= '9' {
			i++
		}
		n.fraD = b[st:i]
	}
	n.ok = i == len(b) && len(n.intD) > 0
	return n
}

func (n oNum) scaled(k int) zzverif.Int {
	d := append(append([]byte{}, n.intD...), n.fraD...)
	v := zzverif.IntOfDigits(d).MulPow10(k - len(n.fraD))
	if n.neg {
		return v.Neg()
	}
	return v
}

func oCmp(a, b oNum) (lt, eq bool) {
	k := len(a.fraD)
	if len(b.fraD) > k {
		k = len(b.fraD)
	}
	A, B := a.scaled(k), b.scaled(k)
	return A.Lt(B), A.Eq(B)
}

// oValid: is the JSON value text `val` a valid instance of the Primitive?
// Keywords evaluated: type, nullable, enum, minimum/maximum with OpenAPI 3.0
// boolean exclusivity, minLength/maxLength. (pattern, format, multipleOf are
// outside the claim.)
func oValid(p *Primitive, val []byte) bool {
	evs, ok := zzjson.Decode(val)
	if !ok || len(evs) != 1 {
		return false
	}
	v := evs[0]
	if v.Kind == 'z' {
		if p.Nullable != nil && string(p.Nullable.value) == "true" {
			return true
		}
	}
	if p.OADType != nil {
		switch *p.OADType {
		case OADTypeString:
			if v.Kind != 's' {
				return false
			}
		case OADTypeInteger:
			if v.Kind != 'n' {
				return false
			}
			n := oParse([]byte(v.Val))
			for _, c := range n.fraD {
				if c != '0' {
					return false
				}
			}
		case OADTypeNumber:
			if v.Kind != 'n' {
				return false
			}
		case OADTypeBoolean:
			if v.Kind != 't' && v.Kind != 'f' {
				return false
			}
		}
	}
	if p.Enum != nil {
		found := false
		for _, item := range p.Enum.list {
			ie, iok := zzjson.Decode(item)
			if iok && len(ie) == 1 && ie[0].Kind == v.Kind && ie[0].Val == v.Val {
				found = true
			}
		}
		if !found {
			return false
		}
	}
	if v.Kind == 'n' {
		n := oParse([]byte(v.Val))
		if p.Minimum != nil {
			lt, eq := oCmp(n, oParse(p.Minimum.value))
			if lt || (eq && p.ExclusiveMinimum != nil && *p.ExclusiveMinimum) {
				return false
			}
		}
		if p.Maximum != nil {
			lt, eq := oCmp(n, oParse(p.Maximum.value))
			if (!lt && !eq) || (eq && p.ExclusiveMaximum != nil && *p.ExclusiveMaximum) {
				return false
			}
		}
	}
	if v.Kind == 's' {
		if p.MinLength != nil && int64(len(v.Val)) < *p.MinLength {
			return false
		}
		if p.MaxLength != nil && int64(len(v.Val)) > *p.MaxLength {
			return false
		}
	}
	return true
}

func oDigits(tag string, n int) []byte {
	b := make([]byte, n)
	for i := range b {
		b[i] = zzverif.Digit(tag)
		if i == 0 && n > 1 {
			zzverif.Assume(b[0] != '0')
		}
	}
	return b
}

func oNumber(tag string, frac bool) []byte {
	var t []byte
	if zzverif.Bool(tag + "neg") {
		t = append(t, '-')
	}
	t = append(t, oDigits(tag+"i", zzverif.IntRange(tag+"il", 1, 2))...)
	if frac {
		t = append(t, '.')
		t = append(t, zzverif.Digit(tag+"f"))
	}
	return t
}

func oJoin(parts ...[]byte) []byte {
	var r []byte
	for _, p := range parts {
		r = append(r, p...)
	}
	return r
}

// VerifC08_Scalars: for scalar schemas with numeric bounds (optionally
// exclusive), length limits, enum or nullable: when Check() accepts the
// schema, the example is a valid instance of the generated OpenAPI Primitive
// (evaluated at struct level), and so is every other value V' that the same
// rules accept (one scalar varied at a time).
func VerifC08_Scalars() {
	zzverif.Expect("accepted", "variation-accepted")
	var rules, v, w []byte
	precisionP := 0
	switch zzverif.IntRange("family", 0, 4) {
	case 4: // precision -> multipleOf
		P := zzverif.IntRange("precision", 1, 9)
		v = []byte{zzverif.Digit("v.i"), '.', zzverif.Digit("v.f")}
		w = []byte{zzverif.Digit("w.i"), '.', zzverif.Digit("w.f")}
		rules = []byte{'p', 'r', 'e', 'c', 'i', 's', 'i', 'o', 'n', ':', ' ', byte('0' + P)}
		precisionP = P
	case 0: // min / max with exclusivity
		// the varied value keeps the example's inferred type (integer / float)
		frac := zzverif.Bool("frac")
		v, w = oNumber("v.", frac), oNumber("w.", frac)
		b := oNumber("b.", zzverif.Bool("b.frac"))
		if zzverif.Bool("isMin") {
			rules = oJoin([]byte("min: "), b)
			if zzverif.Bool("excl") {
				rules = oJoin(rules, []byte(", exclusiveMinimum: true"))
			}
		} else {
			rules = oJoin([]byte("max: "), b)
			if zzverif.Bool("excl") {
				rules = oJoin(rules, []byte(", exclusiveMaximum: true"))
			}
		}
	case 1: // string length
		mk := func(tag string) []byte {
			n := zzverif.IntRange(tag+"len", 0, 3)
			s := []byte{'"'}
			for i := 0; i < n; i++ {
				s = append(s, zzverif.OneOf(tag+"c", "ab "))
			}
			return append(s, '"')
		}
		v, w = mk("v."), mk("w.")
		if zzverif.Bool("isMin") {
			rules = []byte{'m', 'i', 'n', 'L', 'e', 'n', 'g', 't', 'h', ':', ' ', zzverif.Digit("n")}
		} else {
			rules = []byte{'m', 'a', 'x', 'L', 'e', 'n', 'g', 't', 'h', ':', ' ', zzverif.Digit("n")}
		}
	case 2: // enum of two entries
		e1 := []byte{zzverif.Digit("e1")}
		// string entries: a plain character or an escaped control / DEL / quote character
		str := func(tag string) []byte {
			if zzverif.Bool(tag + "esc") {
				return []byte(`"` + []string{"\\u0001", "\\u007f", "\\u000b", "\\\"", "\\n"}[zzverif.IntRange(tag+"which", 0, 4)] + `"`)
			}
			return []byte{'"', zzverif.OneOf(tag+"s", "ab1"), '"'}
		}
		e2 := str("e2.")
		pick := func(tag string) []byte {
			if zzverif.Bool(tag + "str") {
				return str(tag)
			}
			return []byte{zzverif.Digit(tag + "d")}
		}
		v, w = pick("v."), pick("w.")
		rules = oJoin([]byte("enum: ["), e1, []byte(", "), e2, []byte("]"))
	default: // integer, nullable
		v, w = oNumber("v.", false), []byte("null")
		rules = []byte(`type: "integer", nullable: true`)
	}
	s1 := jschema.New("s1", oJoin(v, []byte(" // {"), rules, []byte("}")))
	if s1.Check() != nil {
		return
	}
	zzverif.Reach("accepted")
	ex, err := s1.Example()
	zzverif.Assert(err == nil, "Example() succeeds for an accepted schema")
	ast, aerr := s1.GetAST()
	zzverif.Assert(aerr == nil, "GetAST() succeeds")
	node := newNode(ast)
	p, isPrim := node.(*Primitive)
	zzverif.Assert(isPrim, "a scalar converts to a primitive Schema Object")
	if !isPrim {
		return
	}
	zzverif.Assert(oValid(p, ex), "the example is a valid instance of the generated Schema Object")
	if precisionP > 0 {
		// multipleOf must be the double nearest to 10^-P, otherwise values with
		// P fraction digits (which the precision rule accepts) are not multiples
		want, _ := strconv.ParseFloat("1e-"+string([]byte{byte('0' + precisionP)}), 64)
		zzverif.Assert(p.MultipleOf != nil && *p.MultipleOf == want, "multipleOf is exactly 10^-precision")
	}
	// one scalar varied: every value the schema's own rules accept validates too
	s2 := jschema.New("s2", oJoin(w, []byte(" // {"), rules, []byte("}")))
	if s2.Check() == nil {
		zzverif.Reach("variation-accepted")
		zzverif.Assert(oValid(p, w), "a value the rules accept is a valid instance of the Schema Object")
	}
}
