package jsoac

import (
	schema "github.com/jsightapi/jsight-schema-core"
	"github.com/jsightapi/jsight-schema-core/notations/jschema"
	"github.com/jsightapi/jsight-schema-core/zzverif"
)

func oRuleString(r schema.RuleASTNode) string {
	s := "<" + r.TokenType + "|" + r.Value + "|" + r.Comment + "|" + string([]byte{byte('0' + int(r.Source))})
	if r.Properties != nil {
		r.Properties.EachSafe(func(k string, v schema.RuleASTNode) {
			s += " " + k + "=" + oRuleString(v)
		})
	}
	for _, it := range r.Items {
		s += " ," + oRuleString(it)
	}
	return s + ">"
}

// oASTString is a complete textual snapshot of an AST.
func oASTString(n schema.ASTNode) string {
	s := "(" + n.TokenType + "|" + n.SchemaType + "|" + n.Key + "|" + n.Value + "|" + n.Comment + "|" + n.InheritedFrom
	if n.IsKeyShortcut {
		s += "|shortcut"
	}
	if n.Rules != nil {
		n.Rules.EachSafe(func(k string, v schema.RuleASTNode) {
			s += " " + k + "=" + oRuleString(v)
		})
	}
	for _, c := range n.Children {
		s += " " + oASTString(c)
	}
	return s + ")"
}

// VerifC10_ConversionKeepsAST: building the OpenAPI Schema Object tree (twice)
// does not change the AST that GetAST() returned earlier, and the second
// conversion behaves like the first.
func VerifC10_ConversionKeepsAST() {
	zzverif.Expect("converted")
	d := string([]byte{zzverif.Digit("d")})
	texts := []string{
		`"2021-01-08T12:50:45+06:00" // {or: [{type: "datetime"}, {type: "integer"}]}`,
		`"a@b.cc" // {or: [{type: "email"}, {type: "string", maxLength: ` + d + `}]}`,
		`{"k": ` + d + `, "u": "550e8400-e29b-41d4-a716-446655440000"} // {or: [{type: "object"}, {type: "uuid"}]}`,
		"{\n  \"a\": " + d + ", // {or: [{type: \"integer\", min: 0}, {type: \"date\"}]}\n  \"b\": [\"2021-01-08\"] // {optional: true}\n}",
		d + ` // {or: ["integer", "uri", "@t"]}`,
	}
	s := jschema.New("s", texts[zzverif.IntRange("text", 0, len(texts)-1)])
	_ = s.AddType("@t", jschema.New("@t", `"x"`))
	if s.Check() != nil {
		return
	}
	ast, err := s.GetAST()
	zzverif.Assert(err == nil, "GetAST() succeeds")
	before := oASTString(ast)
	o1 := New(s)
	zzverif.Assert(o1 != nil && o1.root != nil, "the first conversion yields a Schema Object tree")
	zzverif.Assert(oASTString(ast) == before, "the AST returned earlier is unchanged by the conversion")
	o2 := New(s)
	zzverif.Assert(o2 != nil && o2.root != nil, "a second conversion of the same schema works like the first")
	ast2, _ := s.GetAST()
	zzverif.Assert(oASTString(ast2) == before, "GetAST() still reports the same tree")
	zzverif.Reach("converted")
}
