package jsoac

import (
	"github.com/jsightapi/jsight-schema-core/notations/jschema"
	"github.com/jsightapi/jsight-schema-core/zzverif"
)

var oCorpus = []string{
	"{\n  \"a\": 1, // {min: 0}\n  \"b\": \"x\" // {minLength: 1} - note\n}",
	"[ // {minItems: 1, maxItems: 18446744073709551615}\n  12.5 // {precision: 1}\n]",
	"42 /* {type: \"integer\", nullable: true}\n - a note */",
	"\"x\" // {or: [{type: \"string\", maxLength: 3}, \"integer\"]}",
	"\"x\" // {enum: [\"x\", 1, true, null]}",
	"{} // {additionalProperties: \"string\"}",
	"\"abc\" // {maxLength: 9223372036854775808}",
	"\"abc\" // {minLength: 0, maxLength: 9223372036854775807}",
	"true // {const: true}",
	"null",
	"{\"o\": {\"p\": [1, \"s\", null]}} // - described",
	"\"a\" // {or: [{type: \"string\", const: true}, {type: \"datetime\"}, \"integer\"]}",
	"\"a\" // {or: [{type: \"enum\", enum: [\"a\", 2]}, {type: \"integer\"}]}", // oEnumAlternative
}

// oEnumAlternative is the index of the corpus schema with an enum-typed `or`
// alternative (known finding C02-openapi-enum-alternative-panics).
const oEnumAlternative = 12

// VerifC02_OpenAPIStructs: for every accepted schema of the corpus with its
// digits/letters varied and K arbitrary trailing bytes, building the OpenAPI
// Schema Object tree (everything up to, not including, the reflective
// json.Marshal) returns without a panic.
func VerifC02_OpenAPIStructs() {
	zzverif.Expect("converted")
	zzverif.BoundIsViolation()
	d := zzverif.IntRange("doc", 0, len(oCorpus)-1)
	// the conversion has no case for an alternative of type "enum": it panics
	// with the internal failure code, and NewSchemaObject does not recover
	zzverif.Known("C02-openapi-enum-alternative-panics", d == oEnumAlternative)
	text := []byte(oCorpus[d])
	// vary every digit of the text by one symbolic replacement digit class
	pos := zzverif.IntRange("vary", 0, len(text)-1)
	if text[pos] >= '0' && text[pos] <= '9' {
		// concretised: a symbolic digit inside a 19-20 digit value would put a
		// chain of 64-bit multiplications into every later query
		text[pos] = byte('0' + zzverif.IntRange("digit", 0, 9))
	}
	// one arbitrary trailing byte in both tiers: with two, the tail can start
	// a note (`//x`), and the description normaliser is a regular expression
	// (host code) that cannot run on symbolic text
	k := zzverif.IntRange("k", 0, 1)
	text = append(text, zzverif.Bytes("tail", k)...)
	s := jschema.New("s", text)
	if s.Check() != nil {
		return
	}
	zzverif.Reach("converted")
	o := New(s)
	zzverif.Assert(o != nil && o.root != nil, "the conversion yields a Schema Object tree")
	o.SetDescription("d")
}
