package jsoac

import (
	"github.com/jsightapi/jsight-schema-core/notations/jschema"
	"github.com/jsightapi/jsight-schema-core/zzverif"
)

// VerifC09_OpenAPI: the C09 project (three user types, one with an unnamed
// rule-set type) processed twice - under another modelled map iteration
// order, another AddType permutation, or simply again with fresh heap
// addresses: the OpenAPI Schema Object trees of the root and of every
// registered type are structurally equal.
func VerifC09_OpenAPI() {
	zzverif.Expect("accepted")
	mode := zzverif.IntRange("mode", 0, 2)
	perm, order := 0, 0
	switch mode {
	case 0:
		order = zzverif.IntRange("order", 1, 3)
	case 1:
		perm = zzverif.IntRange("perm", 1, 5)
	}
	zzverif.SetMapOrder(0)
	s1, s2, names := jschema.ZzC09Pair(perm, func() { zzverif.SetMapOrder(order) })
	if s1 == nil {
		zzverif.SetMapOrder(0)
		return
	}
	zzverif.Reach("accepted")
	a1, _ := s1.GetAST()
	n1 := newNode(a1)
	var t1 []Node
	for _, n := range names {
		ta, _ := s1.UserTypeCollection[n].GetAST()
		t1 = append(t1, newNode(ta))
	}
	a2, _ := s2.GetAST()
	n2 := newNode(a2)
	var t2 []Node
	for _, n := range names {
		ta, _ := s2.UserTypeCollection[n].GetAST()
		t2 = append(t2, newNode(ta))
	}
	zzverif.SetMapOrder(0)
	zzverif.Assert(zzverif.Same(n1, n2), "same OpenAPI Schema Object of the root on every processing")
	zzverif.Assert(zzverif.Same(t1, t2), "same OpenAPI Schema Objects of the types on every processing")
}
