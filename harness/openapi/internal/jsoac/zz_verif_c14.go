package jsoac

import (
	"github.com/jsightapi/jsight-schema-core/notations/jschema"
	"github.com/jsightapi/jsight-schema-core/zzverif"
)

// VerifC14_OpenAPI: the layout pairs of VerifC14_Layout (notes from a fixed
// list, because the description is normalised by a regular expression): when
// both texts are accepted, the OpenAPI Schema Object trees built from them are
// structurally equal (every field of every node, descriptions included).
func VerifC14_OpenAPI() {
	zzverif.Expect("accepted")
	s1, s2 := jschema.ZzC14Pair()
	if s1.Check() != nil || s2.Check() != nil {
		return // the verdicts are VerifC14_Layout's subject
	}
	zzverif.Reach("accepted")
	a1, _ := s1.GetAST()
	a2, _ := s2.GetAST()
	zzverif.Assert(zzverif.Same(newNode(a1), newNode(a2)), "same OpenAPI Schema Object under every layout")
}
