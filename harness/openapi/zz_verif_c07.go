package openapi

import (
	"github.com/jsightapi/jsight-schema-core/notations/jschema"
	"github.com/jsightapi/jsight-schema-core/zzverif"
)

// VerifC07_PropertyListing: for every inheritance project of the C07 shape
// family that Check() accepts, Dereference(root) is one object whose
// PropertiesInfos() are exactly the own properties followed by the inherited
// ones (transitively), with their keys and optional status, in order.
func VerifC07_PropertyListing() {
	zzverif.Expect("listed", "refused")
	root, keys, optional, refuse := jschema.ZzC07Project()
	err := root.Check()
	if err != nil {
		zzverif.Reach("refused")
		return
	}
	zzverif.Assert(!refuse, "inheritance is merged iff no refusal reason applies")
	infos := Dereference(root)
	zzverif.Assert(len(infos) == 1, "an object schema dereferences to one schema information")
	if len(infos) != 1 {
		return
	}
	zzverif.Assert(infos[0].Type() == SchemaInfoTypeObject, "... of object type")
	oi, ok := infos[0].(ObjectInformer)
	zzverif.Assert(ok, "... that lists properties")
	if !ok {
		return
	}
	props := oi.PropertiesInfos()
	zzverif.Assert(len(props) == len(keys), "the listing has own + inherited properties")
	if len(props) == len(keys) {
		for i, p := range props {
			zzverif.Assert(p.Key() == keys[i], "own properties first, then inherited ones, in order")
			zzverif.Assert(p.Optional() == optional[i], "the optional status is kept in the listing")
		}
	}
	// the listing is a function of the schema: asking again gives the same keys
	again := oi.PropertiesInfos()
	zzverif.Assert(len(again) == len(props), "a second listing of the same object has the same properties")
	zzverif.Reach("listed")
}

// VerifC07_ListingOfTwoHeirs: the root is a choice between two objects that
// both inherit the same parent type: each of the two listed objects has its
// own properties followed by the parent's.
func VerifC07_ListingOfTwoHeirs() {
	zzverif.Expect("listed")
	d := string([]byte{zzverif.Digit("d")})
	root := jschema.New("root", "@cat | @dog")
	_ = root.AddType("@animal", jschema.New("@animal", `{"name": "x", "age": `+d+`}`))
	_ = root.AddType("@cat", jschema.New("@cat", "{ // {allOf: \"@animal\"}\n  \"purr\": true\n}"))
	_ = root.AddType("@dog", jschema.New("@dog", "{ // {allOf: \"@animal\"}\n  \"bark\": "+d+"\n}"))
	if root.Check() != nil {
		return
	}
	infos := Dereference(root)
	zzverif.Assert(len(infos) == 2, "a choice between two objects dereferences to two schema informations")
	if len(infos) != 2 {
		return
	}
	want := [][]string{{"purr", "name", "age"}, {"bark", "name", "age"}}
	for i, info := range infos {
		oi, ok := info.(ObjectInformer)
		zzverif.Assert(ok, "each alternative lists properties")
		if !ok {
			return
		}
		for round := 0; round < 2; round++ {
			props := oi.PropertiesInfos()
			same := len(props) == len(want[i])
			if same {
				for k := range props {
					same = same && props[k].Key() == want[i][k]
				}
			}
			zzverif.Assert(same, "every heir lists its own properties followed by the shared parent's, on every call")
		}
	}
	zzverif.Reach("listed")
}
