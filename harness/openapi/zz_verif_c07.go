package openapi

import (
	"github.com/jsightapi/jsight-schema-core/notations/jschema"
	"github.com/jsightapi/jsight-schema-core/zzverif"
)

// VerifC07_PropertyListing: for every inheritance project of the C07 shape
// family that Check() accepts, Dereference(root) is one object whose
// PropertiesInfos() are exactly the own properties followed by the inherited
// ones (transitively), with their keys and optional status, in order.
func VerifC07_PropertyListing() {
	zzverif.Expect("listed", "refused")
	root, keys, optional, refuse := jschema.ZzC07Project()
	err := root.Check()
	if err != nil {
		zzverif.Reach("refused")
		return
	}
	zzverif.Assert(!refuse, "inheritance is merged iff no refusal reason applies")
	infos := Dereference(root)
	zzverif.Assert(len(infos) == 1, "an object schema dereferences to one schema information")
	if len(infos) != 1 {
		return
	}
	zzverif.Assert(infos[0].Type() == SchemaInfoTypeObject, "... of object type")
	oi, ok := infos[0].(ObjectInformer)
	zzverif.Assert(ok, "... that lists properties")
	if !ok {
		return
	}
	props := oi.PropertiesInfos()
	zzverif.Assert(len(props) == len(keys), "the listing has own + inherited properties")
	if len(props) == len(keys) {
		for i, p := range props {
			zzverif.Assert(p.Key() == keys[i], "own properties first, then inherited ones, in order")
			zzverif.Assert(p.Optional() == optional[i], "the optional status is kept in the listing")
		}
	}
	zzverif.Reach("listed")
}
