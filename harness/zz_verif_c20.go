package schema

import (
	"github.com/jsightapi/jsight-schema-core/bytes"
	"github.com/jsightapi/jsight-schema-core/json"
	"github.com/jsightapi/jsight-schema-core/zzverif"
)

// The documented vocabulary (independent copy; DESIGN.md C20).
var verifTypeNames = []string{
	"string", "integer", "float", "decimal", "boolean", "object", "array", "null",
	"email", "uri", "uuid", "date", "datetime", "enum", "mixed", "any", "comment",
}

func verifIsTypeName(s string) bool {
	for _, n := range verifTypeNames {
		if s == n {
			return true
		}
	}
	return false
}

// family per the documentation of IsEqualSoft: 0 none, 1 string-like,
// 2 float/decimal, 3 wildcard (enum/mixed/any), 10+ singleton families.
func verifFamily(s string) int {
	switch s {
	case "string", "email", "uri", "uuid", "date", "datetime":
		return 1
	case "float", "decimal":
		return 2
	case "enum", "mixed", "any":
		return 3
	case "integer":
		return 10
	case "boolean":
		return 11
	case "object":
		return 12
	case "array":
		return 13
	case "null":
		return 14
	case "comment":
		return 15
	}
	return 0 // the undefined type "": related to nothing, not even itself
}

func verifSoftEqual(t, x string) bool {
	ft, fx := verifFamily(t), verifFamily(x)
	if ft == 0 || fx == 0 {
		return false
	}
	return ft == 3 || fx == 3 || ft == fx
}

// VerifC20_IsValidType: for every string of up to N bytes IsValidType agrees
// with the documented list.
func VerifC20_IsValidType() {
	zzverif.Expect("valid", "invalid")
	n := zzverif.IntRange("len", 0, zzverif.Bound("N", 9, 9))
	s := string(zzverif.Bytes("s", n))
	got := IsValidType(s)
	zzverif.Assert(got == verifIsTypeName(s), "IsValidType accepts exactly the documented names")
	if got {
		zzverif.Reach("valid")
	} else {
		zzverif.Reach("invalid")
	}
}

// VerifC20_SoftEqual: reflexive on defined types, symmetric, and relating
// exactly the documented families - for every pair drawn from the closed
// vocabulary plus the undefined type "" (the strings are symbolic, restricted
// to the vocabulary by assumption, so the map lookups are solver-decided).
func VerifC20_SoftEqual() {
	zzverif.Expect("related", "unrelated")
	n1 := zzverif.IntRange("len1", 0, 8)
	n2 := zzverif.IntRange("len2", 0, 8)
	t := string(zzverif.Bytes("t", n1))
	x := string(zzverif.Bytes("x", n2))
	zzverif.Assume(t == "" || verifIsTypeName(t))
	zzverif.Assume(x == "" || verifIsTypeName(x))
	zzverif.Known("C20-null-array-asymmetry", (t == "null" && x == "array") || (t == "array" && x == "null"))
	got := SchemaType(t).IsEqualSoft(SchemaType(x))
	back := SchemaType(x).IsEqualSoft(SchemaType(t))
	zzverif.Assert(got == back, "IsEqualSoft is symmetric")
	// "comment" is the pseudo type of annotation nodes; whether the wildcard
	// types (enum/mixed/any) relate to it is not documented: the family
	// assertion leaves that pair unspecified (symmetry above still applies).
	if !((t == "comment" && verifFamily(x) == 3) || (x == "comment" && verifFamily(t) == 3)) {
		zzverif.Assert(got == verifSoftEqual(t, x), "IsEqualSoft relates exactly the documented families")
	}
	if verifFamily(t) != 0 {
		zzverif.Assert(SchemaType(t).IsEqualSoft(SchemaType(t)), "IsEqualSoft is reflexive on defined types")
	}
	if got {
		zzverif.Reach("related")
	} else {
		zzverif.Reach("unrelated")
	}
}

// VerifC20_TokenTypes: the token-type mappings of JSON types and schema types agree.
func VerifC20_TokenTypes() {
	zzverif.Expect("known", "unknown")
	u := zzverif.Byte("jsonType")
	jt := json.Type(u)
	name := jt.String()
	if name == "unknown" {
		zzverif.Reach("unknown")
		zzverif.Assert(jt.ToTokenType() == "", "unknown JSON type has no token type")
		return
	}
	zzverif.Reach("known")
	zzverif.Assert(jt.ToTokenType() == SchemaType(name).ToTokenType(), "ToTokenType of json.Type and of the schema type with the same name agree")
	zzverif.Assert(IsValidType(name), "every JSON type name is a valid schema type")
}

func verifKind(t json.Type) string {
	switch t {
	case json.TypeObject:
		return "object"
	case json.TypeArray:
		return "array"
	case json.TypeString:
		return "string"
	case json.TypeInteger:
		return "integer"
	case json.TypeFloat:
		return "float"
	case json.TypeBoolean:
		return "boolean"
	case json.TypeNull:
		return "null"
	}
	return "?"
}

// classifierAccepts: texts json.Guess(...).JsonType() classifies without
// panicking and that are not type shortcuts (GuessSchemaType has no such kind).
func verifGuess(b []byte) (kind string, ok bool) {
	defer func() {
		if r := recover(); r != nil {
			ok = false
		}
	}()
	t := json.Guess(bytes.NewBytes(b)).JsonType()
	if t == json.TypeMixed {
		return "", false
	}
	return verifKind(t), true
}

// VerifC20_Guess: for every text of up to N bytes that the scanner's own
// classifier (json.Guess) classifies, GuessSchemaType names the same kind -
// under every map iteration order the engine models - and for every text it
// rejects, GuessSchemaType reports an error.
func VerifC20_Guess() {
	zzverif.Expect("classified", "unclassified")
	n := zzverif.IntRange("len", 0, zzverif.Bound("N", 4, 6))
	b := zzverif.Bytes("b", n)
	order := zzverif.IntRange("mapOrder", 0, 7)
	want, ok := verifGuess(b)
	zzverif.SetMapOrder(order)
	got, err := GuessSchemaType(b)
	zzverif.SetMapOrder(0)
	if ok {
		zzverif.Reach("classified")
		zzverif.Assert(err == nil, "GuessSchemaType classifies what the scanner's classifier classifies")
		zzverif.Assert(string(got) == want, "GuessSchemaType names the same kind as json.Guess")
	} else {
		zzverif.Reach("unclassified")
	}
}

// VerifC20_GuessTemplates: literal shapes longer than the exhaustive bound:
// numbers with a fraction and/or an exponent (d.d, d.de[+-]d, de d, -d.dd),
// quoted strings containing dots, digits and 'e' - all digits symbolic.
func VerifC20_GuessTemplates() {
	zzverif.Expect("classified", "unclassified")
	var b []byte
	d := func(n string) byte { return zzverif.Digit(n) }
	switch zzverif.IntRange("shape", 0, 7) {
	case 0:
		b = []byte{d("a"), '.', d("b"), 'e', d("c")}
	case 1:
		b = []byte{d("a"), '.', d("b"), d("c"), 'E', zzverif.OneOf("s", "+-"), d("e")}
	case 2:
		b = []byte{'-', d("a"), '.', d("b"), d("c")}
	case 3:
		b = []byte{d("a"), 'e', d("b")}
	case 4:
		b = []byte{'"', d("a"), '.', d("b"), '"'}
	case 5:
		b = []byte{'"', zzverif.OneOf("x", "ae."), zzverif.OneOf("y", "e.1"), zzverif.OneOf("z", "5e."), '"'}
	case 6:
		b = []byte{d("a"), d("b"), '.', d("c"), 'e', '-', d("e")}
	default:
		b = []byte{d("a"), '.', d("b"), d("c"), d("e")}
	}
	order := zzverif.IntRange("mapOrder", 0, 7)
	want, ok := verifGuess(b)
	zzverif.SetMapOrder(order)
	got, err := GuessSchemaType(b)
	zzverif.SetMapOrder(0)
	if ok {
		zzverif.Reach("classified")
		zzverif.Assert(err == nil, "GuessSchemaType classifies what the scanner's classifier classifies")
		zzverif.Assert(string(got) == want, "GuessSchemaType names the same kind as json.Guess")
	} else {
		zzverif.Reach("unclassified")
	}
}
