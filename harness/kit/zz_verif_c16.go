package kit

import (
	"github.com/jsightapi/jsight-schema-core/bytes"
	"github.com/jsightapi/jsight-schema-core/errs"
	"github.com/jsightapi/jsight-schema-core/fs"
	"github.com/jsightapi/jsight-schema-core/zzverif"
)

// vText builds a text of up to T tokens, each a newline (in the convention
// nl, chosen once), a space, a letter or a two-byte UTF-8 character, and the reference position table
// derived from the TOKENS (DESIGN.md B.3), not from scanning bytes.
type vPos struct {
	line, col          int // 1-based
	lineStart, lineEnd int // byte range of the line's text, newline sequence excluded
}

func vText(T int) (text []byte, pos []vPos, nl string) {
	nls := []string{"\n", "\r", "\r\n", "\n\r"}
	nl = nls[zzverif.IntRange("nl", 0, 3)]
	n := zzverif.IntRange("tokens", 0, T)
	line, col, start := 1, 1, 0
	var pending []int // byte positions of the current line, lineEnd not yet known
	flush := func(end int) {
		for _, p := range pending {
			pos[p].lineEnd = end
		}
		pending = pending[:0]
	}
	for i := 0; i < n; i++ {
		tok := zzverif.OneOf("tok", "N xE")
		switch tok {
		case 'N':
			end := len(text)
			for k := 0; k < len(nl); k++ {
				pos = append(pos, vPos{line: line, col: col, lineStart: start})
				pending = append(pending, len(text))
				text = append(text, nl[k])
				col++
			}
			flush(end)
			line++
			col = 1
			start = len(text)
		case 'E': // a two-byte UTF-8 character: positions are BYTE positions
			for _, c := range []byte("é") {
				pos = append(pos, vPos{line: line, col: col, lineStart: start})
				pending = append(pending, len(text))
				text = append(text, c)
				col++
			}
		default:
			pos = append(pos, vPos{line: line, col: col, lineStart: start})
			pending = append(pending, len(text))
			text = append(text, tok)
			col++
		}
	}
	// A text cut in the middle of its last line break (a truncation of a text
	// in a two-byte convention): the lone byte is not a line break of this
	// text's convention, it stays on the last line and is not quoted.
	if len(nl) == 2 && line > 1 && start != len(text) && zzverif.Bool("truncatedNewline") {
		end := len(text)
		pos = append(pos, vPos{line: line, col: col, lineStart: start})
		pending = append(pending, len(text))
		text = append(text, nl[0])
		flush(end)
		return
	}
	flush(len(text))
	return
}

func vTrimLeft(b []byte) []byte {
	for len(b) > 0 && (b[0] == ' ' || b[0] == '\t' || b[0] == '\n' || b[0] == '\r') {
		b = b[1:]
	}
	return b
}

// VerifC16_Position: Line, Column, SourceSubString and String() of a
// positioned diagnostic, for every text of up to T tokens under each newline
// convention and every byte index inside the text.
func VerifC16_Position() {
	zzverif.Expect("on-newline", "on-text")
	text, pos, _ := vText(zzverif.Bound("T", 4, 6))
	zzverif.Assume(len(text) > 0)
	i := zzverif.IntRange("index", 0, len(text)-1)
	f := fs.NewFile("f", text)
	e := NewJSchemaError(f, errs.ErrGeneric.F("m"))
	e.SetIndex(bytes.Index(i))
	zzverif.Assert(int(e.Index()) == i, "Index() is the index that was set")
	zzverif.Assert(int(e.Line()) == pos[i].line, "Line() is the 1-based line of the byte")
	zzverif.Assert(int(e.Column()) == pos[i].col, "Column() is the 1-based column of the byte")
	want := vTrimLeft(text[pos[i].lineStart:pos[i].lineEnd])
	got := vTrimLeft([]byte(e.SourceSubString()))
	zzverif.Assert(string(got) == string(want), "SourceSubString() quotes that line (modulo leading blanks)")
	if text[i] == '\n' || text[i] == '\r' {
		zzverif.Reach("on-newline")
	} else {
		zzverif.Reach("on-text")
	}
	s := e.String()
	zzverif.Assert(zzverif.Opaque(s) || len(s) > 0, "String() renders")
}

// VerifC16_LongLines: a diagnostic on a line of 190..210 or 450 bytes that is
// the first, second or a later line of the text (the line may start beyond
// byte 200): rendering succeeds and SourceSubString() is the whole line or a
// prefix of it (at least 100 bytes) followed by "...".
func VerifC16_LongLines() {
	zzverif.Expect("whole", "shortened")
	nl := []string{"\n", "\r\n"}[zzverif.IntRange("nl", 0, 1)]
	before := []int{-1, 0, 3, 230}[zzverif.IntRange("before", 0, 3)] // bytes of text before the long line, -1: it is the first line
	L := zzverif.IntRange("lineLen", 190, 211)
	if L == 211 {
		L = 450
	}
	after := zzverif.Bool("lineAfter")
	var text []byte
	if before >= 0 {
		for k := 0; k < before; k++ {
			if k%100 == 99 {
				text = append(text, nl...)
			} else {
				text = append(text, 'p')
			}
		}
		text = append(text, nl...)
	}
	begin := len(text)
	for k := 0; k < L; k++ {
		text = append(text, "abcdefghij"[k%10])
	}
	end := len(text)
	if after {
		text = append(text, nl...)
		text = append(text, "zz"...)
	}
	where := zzverif.IntRange("where", 0, 4)
	i := []int{begin, begin + 1, begin + L/2, end - 1, end}[where]
	zzverif.Assume(i < len(text))
	f := fs.NewFile("f", text)
	e := NewJSchemaError(f, errs.ErrGeneric.F("m"))
	e.SetIndex(bytes.Index(i))
	got := e.SourceSubString()
	line := string(text[begin:end])
	if got == line {
		zzverif.Reach("whole")
	} else {
		zzverif.Reach("shortened")
		n := len(got) - 3
		zzverif.Assert(n >= 100 && n < L && got[n:] == "..." && got[:n] == line[:n], "a long line is quoted as a prefix of the line followed by ...")
	}
	s := e.String()
	zzverif.Assert(zzverif.Opaque(s) || len(s) > 0, "String() renders")
}

// VerifC16_RenderAnyIndex: String() terminates without a panic for EVERY
// index value a caller can set, including indexes at or beyond the end of
// the text and on an empty text.
func VerifC16_RenderAnyIndex() {
	zzverif.Expect("inside", "outside")
	text, _, _ := vText(zzverif.Bound("T", 3, 4))
	idx := zzverif.U64("index")
	if idx < uint64(len(text)) {
		zzverif.Reach("inside")
	} else {
		zzverif.Reach("outside")
		// outside the text only the boundary values matter to the arithmetic
		zzverif.Assume(idx == uint64(len(text)) || idx == uint64(len(text))+1 || idx == 1<<63-1 || idx == 1<<63 || idx == 1<<64-1)
	}
	f := fs.NewFile("f", text)
	e := NewJSchemaError(f, errs.ErrGeneric.F("m"))
	e.SetIndex(bytes.Index(idx))
	s := e.String()
	zzverif.Assert(zzverif.Opaque(s) || len(s) > 0, "String() renders")
}

// VerifC16_RenderQuotesLine: with a concrete text and index (so the rendered
// string is exact), String() carries the code prefix, the message - also one
// containing '%' -, the line number and quotes the offending line.
func VerifC16_RenderQuotesLine() {
	zzverif.Expect("rendered")
	texts := []string{"ab\ncd %s ef\ngh", "{\"a\": %}", "x", "  p%dq\r\nz"}
	msgs := []string{"plain", "100% wrong", "%d %s %v"}
	text := texts[zzverif.IntRange("text", 0, len(texts)-1)]
	msg := msgs[zzverif.IntRange("msg", 0, len(msgs)-1)]
	i := zzverif.IntRange("index", 0, len(text)-1)
	f := fs.NewFile("file.jst", text)
	e := NewJSchemaError(f, errs.ErrGeneric.F(msg))
	e.SetIndex(bytes.Index(i))
	s := e.String()
	zzverif.Reach("rendered")
	src := e.SourceSubString()
	contains := func(h, n string) bool {
		for k := 0; k+len(n) <= len(h); k++ {
			if h[k:k+len(n)] == n {
				return true
			}
		}
		return false
	}
	zzverif.Assert(contains(s, "ERROR: "+msg+"\n"), "the rendering starts with the prefix and the message verbatim")
	zzverif.Assert(contains(s, "in line "+string(rune('0'+e.Line()))+" on file file.jst"), "the rendering names the line and the file")
	zzverif.Assert(contains(s, "> "+src+"\n"), "the rendering quotes the offending line")
}

// VerifC16_ConvertError: ConvertError (what JSight API Core shows to users)
// keeps the numeric code and the message of every diagnostic it is given - a
// positioned JSchemaError, a bare code, a *errs.Err - and wraps anything else
// into the generic diagnostic; the result always renders.
func VerifC16_ConvertError() {
	zzverif.Expect("converted")
	f := fs.NewFile("api.jst", "GET /cats\n  200 @cat\n")
	codes := []errs.Code{errs.ErrEmptySchema, errs.ErrUserTypeNotFound, errs.ErrEmptyJson, errs.ErrInvalidSchemaName, errs.ErrDuplicationOfNameOfTypes, errs.ErrLoadError}
	c := codes[zzverif.IntRange("code", 0, len(codes)-1)]
	mkErr := func() *errs.Err {
		switch c {
		case errs.ErrEmptySchema, errs.ErrEmptyJson:
			return c.F()
		default:
			return c.F("@cat")
		}
	}
	var in interface{}
	var wantCode int
	var wantMsg string
	switch zzverif.IntRange("kind", 0, 4) {
	case 0:
		e := mkErr()
		in, wantCode, wantMsg = e, int(e.Code()), e.Error()
	case 1:
		je := NewJSchemaError(f, mkErr())
		je.SetIndex(bytes.Index(zzverif.IntRange("index", 0, 12)))
		in, wantCode, wantMsg = je, je.ErrCode(), je.Message()
	case 2:
		if c != errs.ErrEmptySchema && c != errs.ErrEmptyJson {
			c = errs.ErrEmptySchema // a bare code is formatted without arguments
		}
		in, wantCode, wantMsg = c, int(c), c.F().Error()
	case 3:
		in, wantCode, wantMsg = vPlainError("boom"), int(errs.ErrGeneric), "boom"
	default:
		in, wantCode, wantMsg = "a string", int(errs.ErrGeneric), "a string"
	}
	out := ConvertError(f, in)
	zzverif.Reach("converted")
	zzverif.Assert(out.ErrCode() == wantCode, "ConvertError keeps the numeric code of a diagnostic")
	zzverif.Assert(out.Message() == wantMsg, "ConvertError keeps the message")
	zzverif.Assert(out.Filename() == "api.jst", "the converted diagnostic names the file")
	if je, ok := out.(JSchemaError); ok {
		s := je.Error()
		zzverif.Assert(zzverif.Opaque(s) || len(s) > 0, "the converted diagnostic renders")
	} else {
		zzverif.Assert(false, "the converted diagnostic is a JSchemaError")
	}
}

type vPlainError string

func (e vPlainError) Error() string { return string(e) }
