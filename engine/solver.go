package main

// Driver for one long-lived SMT solver process (z3 -in / z3-new -in / cvc5 --incremental).

import (
	"bufio"
	"os"
	"fmt"
	"io"
	"os/exec"
	"strconv"
	"strings"
	"time"
)

type Solver struct {
	name    string
	cmd     *exec.Cmd
	in      io.WriteCloser
	out     *bufio.Reader
	defined map[*Term]string
	ctr     int
	declN   int // number of ctx vars declared so far
	Queries int
	Sat     int
	Unsat   int
	Unknown int
	Errors  int
	Time    time.Duration
	timeout int // ms per query
	log     io.Writer
}

func solverArgs(name string) (string, []string) {
	switch name {
	case "z3":
		return "z3", []string{"-in"}
	case "z3-new":
		return "z3-new", []string{"-in"}
	case "cvc5":
		return "cvc5", []string{"--incremental", "--lang=smt2", "--produce-models"}
	}
	return name, nil
}

func NewSolver(name string, timeoutMs int) (*Solver, error) {
	bin, args := solverArgs(name)
	cmd := exec.Command(bin, args...)
	in, err := cmd.StdinPipe()
	if err != nil {
		return nil, err
	}
	out, err := cmd.StdoutPipe()
	if err != nil {
		return nil, err
	}
	cmd.Stderr = cmd.Stdout
	if err := cmd.Start(); err != nil {
		return nil, err
	}
	s := &Solver{name: name, cmd: cmd, in: in, out: bufio.NewReaderSize(out, 1<<16), timeout: timeoutMs}
	if os.Getenv("SYMGO_SMTLOG") != "" {
		s.log = os.Stderr
	}
	s.Reset()
	return s, nil
}

func (s *Solver) send(txt string) {
	if s.log != nil {
		io.WriteString(s.log, txt)
	}
	io.WriteString(s.in, txt)
}

func (s *Solver) Reset() {
	s.defined = map[*Term]string{}
	s.ctr = 0
	s.declN = 0
	if s.name == "cvc5" {
		s.send("(reset)\n(set-option :global-declarations true)\n(set-option :produce-models true)\n(set-logic ALL)\n")
		if s.timeout > 0 {
			s.send("(set-option :tlimit-per " + strconv.Itoa(s.timeout) + ")\n")
		}
	} else {
		s.send("(reset)\n(set-option :global-declarations true)\n")
		if s.timeout > 0 {
			s.send("(set-option :timeout " + strconv.Itoa(s.timeout) + ")\n")
		}
	}
}

func (s *Solver) Close() {
	s.in.Close()
	s.cmd.Process.Kill()
	s.cmd.Wait()
}

// declare makes sure every variable of the context is declared.
func (s *Solver) declare(c *TermCtx) {
	for ; s.declN < len(c.vars); s.declN++ {
		v := c.vars[s.declN]
		s.send("(declare-const " + v.Name + " " + v.S.String() + ")\n")
	}
}

func (s *Solver) termText(c *TermCtx, t *Term) string {
	s.declare(c)
	var sb, defs strings.Builder
	ep := 0
	t.emit(&sb, &defs, &ep, &s.ctr, s.defined)
	if defs.Len() > 0 {
		s.send(defs.String())
	}
	return sb.String()
}

func (s *Solver) Assert(c *TermCtx, t *Term) {
	s.send("(assert " + s.termText(c, t) + ")\n")
}

func (s *Solver) Push() { s.send("(push 1)\n") }
func (s *Solver) Pop()  { s.send("(pop 1)\n") }

type SatResult int

const (
	RSat SatResult = iota
	RUnsat
	RUnknown
)

func (r SatResult) String() string { return [...]string{"sat", "unsat", "unknown"}[r] }

func (s *Solver) readLine() string {
	line, err := s.out.ReadString('\n')
	if err != nil {
		return "(error \"solver died: " + err.Error() + "\")"
	}
	return strings.TrimSpace(line)
}

func (s *Solver) CheckSat() SatResult {
	t0 := time.Now()
	s.send("(check-sat)\n")
	s.Queries++
	var r SatResult
	for {
		line := s.readLine()
		if line == "" {
			continue
		}
		switch {
		case line == "sat":
			r = RSat
			s.Sat++
		case line == "unsat":
			r = RUnsat
			s.Unsat++
		case line == "unknown" || line == "timeout":
			r = RUnknown
			s.Unknown++
		case strings.HasPrefix(line, "(error"):
			s.Errors++
			r = RUnknown
			s.Unknown++
			if strings.Contains(line, "solver died") {
				s.Time += time.Since(t0)
				return r
			}
			// an error line precedes the actual answer or replaces it; keep
			// reading until an answer arrives would dead-lock if none comes, so
			// send a marker.
			s.send("(echo \"@sync\")\n")
			for {
				l2 := s.readLine()
				if strings.Contains(l2, "@sync") || strings.Contains(l2, "solver died") {
					break
				}
			}
			s.Time += time.Since(t0)
			return RUnknown
		default:
			continue
		}
		break
	}
	s.Time += time.Since(t0)
	return r
}

// Check asks whether PC ∧ t is satisfiable (PC = what has been asserted).
func (s *Solver) Check(c *TermCtx, t *Term) SatResult {
	txt := s.termText(c, t)
	s.send("(push 1)\n(assert " + txt + ")\n")
	t0 := time.Now()
	r := s.CheckSat()
	if d := time.Since(t0); d > 300*time.Millisecond && slowLog != nil {
		fmt.Fprintf(slowLog, "SLOW %.2fs %s: %s\n", d.Seconds(), r, txt)
	}
	s.send("(pop 1)\n")
	return r
}

var slowLog io.Writer

// Model returns values for all declared BV/Bool variables after a sat answer.
// Must be called right after a CheckSat that returned sat, before pop.
func (s *Solver) Model(c *TermCtx) (map[string]uint64, error) {
	res := map[string]uint64{}
	if len(c.vars) == 0 {
		return res, nil
	}
	var sb strings.Builder
	sb.WriteString("(get-value (")
	for _, v := range c.vars {
		sb.WriteString(v.Name)
		sb.WriteByte(' ')
	}
	sb.WriteString("))\n")
	s.send(sb.String())
	// read a balanced s-expression
	depth := 0
	var txt strings.Builder
	started := false
	for {
		line, err := s.out.ReadString('\n')
		if err != nil {
			return nil, err
		}
		if strings.HasPrefix(strings.TrimSpace(line), "(error") && !started {
			return nil, fmt.Errorf("solver: %s", line)
		}
		for _, ch := range line {
			if ch == '(' {
				depth++
				started = true
			} else if ch == ')' {
				depth--
			}
		}
		txt.WriteString(line)
		if started && depth <= 0 {
			break
		}
	}
	toks := tokenize(txt.String())
	// ( ( name value ) ( name value ) ... ) where value may be #x.., #b.., true,false, (_ bvN w)
	i := 0
	next := func() string {
		if i < len(toks) {
			i++
			return toks[i-1]
		}
		return ""
	}
	if next() != "(" {
		return nil, fmt.Errorf("model parse: %q", txt.String())
	}
	for i < len(toks) {
		t := next()
		if t == ")" {
			break
		}
		if t != "(" {
			return nil, fmt.Errorf("model parse at %q", t)
		}
		name := next()
		v := next()
		var val uint64
		switch {
		case v == "true":
			val = 1
		case v == "false":
			val = 0
		case strings.HasPrefix(v, "#x"):
			val, _ = strconv.ParseUint(v[2:], 16, 64)
		case strings.HasPrefix(v, "#b"):
			val, _ = strconv.ParseUint(v[2:], 2, 64)
		case v == "(":
			// (_ bv123 8)
			next() // _
			bvn := next()
			next() // width
			next() // )
			val, _ = strconv.ParseUint(strings.TrimPrefix(bvn, "bv"), 10, 64)
		default:
			return nil, fmt.Errorf("model value %q", v)
		}
		if next() != ")" {
			return nil, fmt.Errorf("model parse: missing )")
		}
		res[name] = val
	}
	return res, nil
}

func tokenize(s string) []string {
	var toks []string
	cur := strings.Builder{}
	flush := func() {
		if cur.Len() > 0 {
			toks = append(toks, cur.String())
			cur.Reset()
		}
	}
	inBar := false
	for _, ch := range s {
		if inBar {
			cur.WriteRune(ch)
			if ch == '|' {
				inBar = false
			}
			continue
		}
		switch ch {
		case '|':
			inBar = true
			cur.WriteRune(ch)
		case '(', ')':
			flush()
			toks = append(toks, string(ch))
		case ' ', '\n', '\t', '\r':
			flush()
		default:
			cur.WriteRune(ch)
		}
	}
	flush()
	return toks
}

// readBalanced reads one balanced s-expression (possibly over several lines).
func (s *Solver) readBalanced() string {
	depth := 0
	started := false
	var txt strings.Builder
	for {
		line, err := s.out.ReadString('\n')
		if err != nil {
			return txt.String()
		}
		for _, ch := range line {
			if ch == '(' {
				depth++
				started = true
			} else if ch == ')' {
				depth--
			}
		}
		txt.WriteString(line)
		if started && depth <= 0 {
			break
		}
	}
	return txt.String()
}

// parseSingleValue parses "((<term> <value>))".
func parseSingleValue(s string) (uint64, bool) {
	toks := tokenize(s)
	if len(toks) < 5 || strings.HasPrefix(strings.TrimSpace(s), "(error") {
		return 0, false
	}
	// the value is the last token group before the two closing parens
	end := len(toks) - 2
	if toks[end-1] == ")" && end >= 5 && toks[end-5] == "(" && toks[end-4] == "_" {
		v, err := strconv.ParseUint(strings.TrimPrefix(toks[end-3], "bv"), 10, 64)
		return v, err == nil
	}
	v := toks[end-1]
	switch {
	case v == "true":
		return 1, true
	case v == "false":
		return 0, true
	case strings.HasPrefix(v, "#x"):
		r, err := strconv.ParseUint(v[2:], 16, 64)
		return r, err == nil
	case strings.HasPrefix(v, "#b"):
		r, err := strconv.ParseUint(v[2:], 2, 64)
		return r, err == nil
	}
	return 0, false
}
