package main

// Value representation of the symbolic interpreter.
//
//   bool                     concrete boolean
//   I                        concrete integer of any Go integer type: the value's
//                            bits, zero-extended to 64 (width/sign come from the static type)
//   *Term                    symbolic boolean (sort Bool) or integer (sort BV w)
//   float64 / float32        concrete only
//   string / *SymStr         string; *SymStr has at least one symbolic byte
//   *Opaque                  string whose bytes are deliberately not tracked
//   *value                   pointer (nil pointer = (*value)(nil))
//   []value                  slice (nil slice = []value(nil))
//   array, structure         aggregates (value semantics)
//   *Map                     map (nil map = (*Map)(nil))
//   iface                    interface value {dynamic type, value}
//   *closure, *ssa.Function, *ssa.Builtin   functions
//   tuple                    multi-value results
//   *Host                    host object behind a pointer/struct type (regexp etc.)
//   *IntV                    oracle integer (zzverif.Int)

import (
	"fmt"
	"go/types"
	"math/big"
	"strings"

	"golang.org/x/tools/go/ssa"
)

type value interface{}

type I uint64

type tuple []value
type array []value
type structure []value

type iface struct {
	t types.Type
	v value
}

type closure struct {
	Fn  *ssa.Function
	Env []value
}

type SymStr struct {
	b []value // each I (byte) or *Term (BV8)
}

type Opaque struct {
	why string
}

type Host struct {
	v interface{}
}

type IntV struct {
	c *big.Int // concrete
	t *Term    // or symbolic (sort Int)
}

type bad struct{}

// ---- type helpers ----

func under(t types.Type) types.Type { return t.Underlying() }

func deref(t types.Type) types.Type {
	if p, ok := t.Underlying().(*types.Pointer); ok {
		return p.Elem()
	}
	panic(fmt.Sprintf("deref of non-pointer %v", t))
}

// intInfo returns width and signedness for integer basic types.
func intInfo(t types.Type) (w int, signed bool, ok bool) {
	b, isb := t.Underlying().(*types.Basic)
	if !isb {
		return 0, false, false
	}
	switch b.Kind() {
	case types.Int, types.Int64, types.UntypedInt:
		return 64, true, true
	case types.Int8:
		return 8, true, true
	case types.Int16:
		return 16, true, true
	case types.Int32, types.UntypedRune:
		return 32, true, true
	case types.Uint, types.Uint64, types.Uintptr:
		return 64, false, true
	case types.Uint8:
		return 8, false, true
	case types.Uint16:
		return 16, false, true
	case types.Uint32:
		return 32, false, true
	}
	return 0, false, false
}

func isString(t types.Type) bool {
	b, ok := t.Underlying().(*types.Basic)
	return ok && b.Info()&types.IsString != 0
}

func isFloat(t types.Type) bool {
	b, ok := t.Underlying().(*types.Basic)
	return ok && b.Info()&types.IsFloat != 0
}

func isBool(t types.Type) bool {
	b, ok := t.Underlying().(*types.Basic)
	return ok && b.Info()&types.IsBoolean != 0
}

// zero returns the zero value of type t.
func zero(t types.Type) value {
	switch t := t.(type) {
	case *types.Basic:
		if t.Kind() == types.UntypedNil {
			panic("untyped nil has no zero value")
		}
		if t.Info()&types.IsUntyped != 0 {
			t = types.Default(t).(*types.Basic)
		}
		switch {
		case t.Info()&types.IsBoolean != 0:
			return false
		case t.Info()&types.IsInteger != 0:
			return I(0)
		case t.Kind() == types.Float32:
			return float32(0)
		case t.Info()&types.IsFloat != 0:
			return float64(0)
		case t.Info()&types.IsString != 0:
			return ""
		case t.Kind() == types.UnsafePointer:
			return (*value)(nil)
		case t.Info()&types.IsComplex != 0:
			return complex128(0)
		}
		panic(fmt.Sprint("zero for unexpected basic type: ", t))
	case *types.Pointer:
		return (*value)(nil)
	case *types.Array:
		a := make(array, t.Len())
		for i := range a {
			a[i] = zero(t.Elem())
		}
		return a
	case *types.Named, *types.Alias:
		return zero(t.Underlying())
	case *types.Interface:
		return iface{}
	case *types.Slice:
		return []value(nil)
	case *types.Struct:
		s := make(structure, t.NumFields())
		for i := range s {
			s[i] = zero(t.Field(i).Type())
		}
		return s
	case *types.Tuple:
		if t.Len() == 1 {
			return zero(t.At(0).Type())
		}
		s := make(tuple, t.Len())
		for i := range s {
			s[i] = zero(t.At(i).Type())
		}
		return s
	case *types.Chan:
		return (*value)(nil)
	case *types.Map:
		return (*Map)(nil)
	case *types.Signature:
		return (*ssa.Function)(nil)
	}
	panic(fmt.Sprint("zero: unexpected ", t))
}

// copyVal makes an unaliased copy of aggregates (value semantics).
func copyVal(v value) value {
	switch v := v.(type) {
	case structure:
		a := make(structure, len(v))
		for i := range v {
			a[i] = copyVal(v[i])
		}
		return a
	case array:
		a := make(array, len(v))
		for i := range v {
			a[i] = copyVal(v[i])
		}
		return a
	}
	return v
}

func load(addr *value) value { return copyVal(*addr) }

func store(addr *value, v value) {
	switch rhs := v.(type) {
	case structure:
		lhs, ok := (*addr).(structure)
		if !ok || len(lhs) != len(rhs) {
			*addr = copyVal(v)
			return
		}
		for i := range lhs {
			store(&lhs[i], rhs[i])
		}
	case array:
		lhs, ok := (*addr).(array)
		if !ok || len(lhs) != len(rhs) {
			*addr = copyVal(v)
			return
		}
		for i := range lhs {
			store(&lhs[i], rhs[i])
		}
	default:
		*addr = v
	}
}

// ---- strings ----

// mkString builds a string value from bytes, normalising to a Go string when
// all bytes are concrete.
func mkString(b []value) value {
	allc := true
	for _, x := range b {
		if _, ok := x.(I); !ok {
			allc = false
			break
		}
	}
	if allc {
		bs := make([]byte, len(b))
		for i, x := range b {
			bs[i] = byte(x.(I))
		}
		return string(bs)
	}
	cp := make([]value, len(b))
	copy(cp, b)
	return &SymStr{b: cp}
}

func strBytes(v value) []value {
	switch s := v.(type) {
	case string:
		r := make([]value, len(s))
		for i := 0; i < len(s); i++ {
			r[i] = I(s[i])
		}
		return r
	case *SymStr:
		return s.b
	}
	panic(unsupported(fmt.Sprintf("string bytes of %T", v)))
}

func strLen(v value) int {
	switch s := v.(type) {
	case string:
		return len(s)
	case *SymStr:
		return len(s.b)
	case *Opaque:
		panic(unsupported("len of opaque string (" + s.why + ")"))
	}
	panic(fmt.Sprintf("strLen of %T", v))
}

// ---- debug printing ----

func (ex *Exec) show(v value) string {
	switch v := v.(type) {
	case nil:
		return "<nil>"
	case bool:
		return fmt.Sprint(v)
	case I:
		return fmt.Sprint(uint64(v))
	case *Term:
		return "<sym>"
	case string:
		return fmt.Sprintf("%q", v)
	case *SymStr:
		var sb strings.Builder
		sb.WriteString("sym\"")
		for _, b := range v.b {
			if c, ok := b.(I); ok {
				sb.WriteByte(byte(c))
			} else {
				sb.WriteString("?")
			}
		}
		sb.WriteString("\"")
		return sb.String()
	case *Opaque:
		return "<opaque:" + v.why + ">"
	case iface:
		if v.t == nil {
			return "nil-iface"
		}
		return "iface(" + v.t.String() + ")"
	case structure:
		return fmt.Sprintf("struct/%d", len(v))
	case *value:
		if v == nil {
			return "nil-ptr"
		}
		return "ptr"
	case []value:
		return fmt.Sprintf("slice/%d", len(v))
	}
	return fmt.Sprintf("%T", v)
}
