package main

// Host calls: library functions executed by the real Go implementation when
// every argument is concrete; opaque/unsupported otherwise.

import (
	"encoding/json"
	"fmt"
	"go/types"
	"math"
	"net/mail"
	"net/url"
	"regexp"
	"strconv"
	"strings"
	"time"

	"github.com/lucasjones/reggen"
	"golang.org/x/tools/go/ssa"
)

func isNilSSAFunc(v value) bool {
	f, ok := v.(*ssa.Function)
	return ok && f == nil
}

func (ex *Exec) hostError(msg string) value {
	t := ex.prog.errorsErrorStringPtr
	p := new(value)
	*p = structure{msg}
	return iface{t: t, v: p}
}

func (ex *Exec) errOrNil(err error) value {
	if err == nil {
		return iface{}
	}
	return ex.hostError(err.Error())
}

func concreteBytes(v value) ([]byte, bool) {
	switch v := v.(type) {
	case []value:
		b := make([]byte, len(v))
		for i, x := range v {
			c, ok := x.(I)
			if !ok {
				return nil, false
			}
			b[i] = byte(c)
		}
		return b, true
	case string:
		return []byte(v), true
	}
	return nil, false
}

func bytesValue(b []byte) []value {
	r := make([]value, len(b))
	for i, c := range b {
		r[i] = I(c)
	}
	return r
}

// callStringMethod calls Error() or String() of a value through the interpreter.
func (ex *Exec) callStringMethod(fr *frame, i iface, name string) (value, bool) {
	if i.t == nil {
		return nil, false
	}
	ms := ex.prog.prog.MethodSets.MethodSet(i.t)
	for k := 0; k < ms.Len(); k++ {
		sel := ms.At(k)
		if sel.Obj().Name() != name {
			continue
		}
		sig := sel.Type().(*types.Signature)
		if sig.Params().Len() != 0 || sig.Results().Len() != 1 || !isString(sig.Results().At(0).Type()) {
			return nil, false
		}
		fn := ex.prog.prog.MethodValue(sel)
		if fn == nil {
			return nil, false
		}
		return ex.call(fr, 0, fn, []value{i.v}), true
	}
	return nil, false
}

// callMethod calls a method by name if the dynamic type has it.
func (ex *Exec) callMethod(fr *frame, i iface, name string, args []value) (value, bool) {
	if i.t == nil {
		return nil, false
	}
	ms := ex.prog.prog.MethodSets.MethodSet(i.t)
	for k := 0; k < ms.Len(); k++ {
		sel := ms.At(k)
		if sel.Obj().Name() != name || !sel.Obj().Exported() {
			continue
		}
		sig := sel.Type().(*types.Signature)
		if sig.Params().Len() != len(args) || sig.Results().Len() != 1 {
			return nil, false
		}
		fn := ex.prog.prog.MethodValue(sel)
		if fn == nil {
			return nil, false
		}
		return ex.call(fr, 0, fn, append([]value{i.v}, args...)), true
	}
	return nil, false
}

type hostText struct{ s string }

func (h hostText) String() string { return h.s }

type hostErr struct{ s string }

func (h hostErr) Error() string { return h.s }

// toHost converts an interface-typed argument of a formatting call to a host
// value; ok=false when it is symbolic/opaque or of an unsupported shape.
func (ex *Exec) toHost(fr *frame, v value) (interface{}, bool) {
	i, isI := v.(iface)
	if !isI {
		return nil, false
	}
	if i.t == nil {
		return nil, true
	}
	if s, ok := ex.callStringMethod(fr, i, "Error"); ok {
		cs, ok := s.(string)
		if !ok {
			return nil, false
		}
		return hostErr{cs}, true
	}
	if s, ok := ex.callStringMethod(fr, i, "String"); ok {
		cs, ok := s.(string)
		if !ok {
			return nil, false
		}
		return hostText{cs}, true
	}
	switch x := i.v.(type) {
	case bool:
		return x, true
	case string:
		return x, true
	case float64:
		return x, true
	case I:
		b, ok := i.t.Underlying().(*types.Basic)
		if !ok {
			return nil, false
		}
		u := uint64(x)
		switch b.Kind() {
		case types.Int:
			return int(int64(u)), true
		case types.Int8:
			return int8(u), true
		case types.Int16:
			return int16(u), true
		case types.Int32:
			return int32(u), true
		case types.Int64:
			return int64(u), true
		case types.Uint:
			return uint(u), true
		case types.Uint8:
			return uint8(u), true
		case types.Uint16:
			return uint16(u), true
		case types.Uint32:
			return uint32(u), true
		case types.Uint64:
			return u, true
		case types.Uintptr:
			return uintptr(u), true
		}
	case []value:
		if sl, ok := i.t.Underlying().(*types.Slice); ok {
			if eb, ok := sl.Elem().Underlying().(*types.Basic); ok && eb.Kind() == types.Uint8 {
				if b, ok := concreteBytes(x); ok {
					return b, true
				}
			}
		}
	}
	return nil, false
}

// stringish returns the string value (possibly with symbolic bytes) an
// argument renders to under %s / %v, if that is exact.
func (ex *Exec) stringish(fr *frame, v value) (value, bool) {
	i, isI := v.(iface)
	if !isI || i.t == nil {
		return nil, false
	}
	if s, ok := ex.callStringMethod(fr, i, "Error"); ok {
		return s, true
	}
	if s, ok := ex.callStringMethod(fr, i, "String"); ok {
		return s, true
	}
	switch x := i.v.(type) {
	case string, *SymStr, *Opaque:
		if isString(i.t) {
			return x, true
		}
	case []value:
		if sl, ok := i.t.Underlying().(*types.Slice); ok {
			if eb, ok := sl.Elem().Underlying().(*types.Basic); ok && eb.Kind() == types.Uint8 {
				return mkString(x), true
			}
		}
	}
	return nil, false
}

func (ex *Exec) addressText(p value) value {
	key, ok := p.(*value)
	if !ok {
		return &Opaque{why: "%p of non-pointer"}
	}
	if key == nil {
		return "0x0"
	}
	if ex.addrs == nil {
		ex.addrs = map[*value][]value{}
	}
	if a, ok := ex.addrs[key]; ok {
		return mkString(a)
	}
	tc := ex.tc
	out := strBytes("0xc000")
	var mine []*Term
	for k := 0; k < 6; k++ {
		v := ex.freshVarExact(fmt.Sprintf("!addr%d.%d", ex.addrCtr, k), bv(8))
		isDigit := tc.And(tc.BVCmp(OpBVUle, tc.BV('0', 8), v), tc.BVCmp(OpBVUle, v, tc.BV('9', 8)))
		isHex := tc.And(tc.BVCmp(OpBVUle, tc.BV('a', 8), v), tc.BVCmp(OpBVUle, v, tc.BV('f', 8)))
		// fresh variable, always satisfiable: assert without a feasibility query
		ex.assertPC(tc.Or(isDigit, isHex))
		out = append(out, v)
		mine = append(mine, v)
		if ex.addrOwner == nil {
			ex.addrOwner = map[*Term]int{}
		}
		ex.addrOwner[v] = ex.addrCtr
	}
	ex.addrCtr++
	for _, other := range ex.addrVars {
		diff := tc.ff
		for k := range mine {
			diff = tc.Or(diff, tc.Not(tc.Eq(mine[k], other[k])))
		}
		ex.assertPC(diff) // 16^6 addresses: always satisfiable, no query needed
	}
	ex.addrVars = append(ex.addrVars, mine)
	ex.addrs[key] = out
	return mkString(out)
}

// sprintf models fmt.Sprintf.
func (ex *Exec) sprintf(fr *frame, format value, args []value) value {
	f, ok := format.(string)
	if !ok {
		return &Opaque{why: "Sprintf with non-concrete format"}
	}
	// fast path: everything concrete → the real fmt
	host := make([]interface{}, len(args))
	allHost := true
	hasP := strings.Contains(f, "%p")
	for i, a := range args {
		h, ok := ex.toHost(fr, a)
		if !ok {
			allHost = false
			break
		}
		host[i] = h
	}
	if allHost && !hasP {
		return fmt.Sprintf(f, host...)
	}
	// exact splice for simple verbs
	var out []value
	ai := 0
	for i := 0; i < len(f); i++ {
		c := f[i]
		if c != '%' {
			out = append(out, I(c))
			continue
		}
		i++
		if i >= len(f) {
			return &Opaque{why: "Sprintf: trailing %"}
		}
		verb := f[i]
		if verb == '%' {
			out = append(out, I('%'))
			continue
		}
		if ai >= len(args) {
			return &Opaque{why: "Sprintf: missing argument"}
		}
		arg := args[ai]
		ai++
		switch verb {
		case 's', 'v':
			if s, ok := ex.stringish(fr, arg); ok {
				if o, isO := s.(*Opaque); isO {
					return o
				}
				out = append(out, strBytes(s)...)
				continue
			}
			if h, ok := ex.toHost(fr, arg); ok {
				out = append(out, strBytes(fmt.Sprintf("%"+string(verb), h))...)
				continue
			}
			return &Opaque{why: "Sprintf %" + string(verb) + " of symbolic/unsupported argument"}
		case 'd', 'q', 'c', 'x', 't':
			if h, ok := ex.toHost(fr, arg); ok {
				out = append(out, strBytes(fmt.Sprintf("%"+string(verb), h))...)
				continue
			}
			return &Opaque{why: "Sprintf %" + string(verb) + " of symbolic argument"}
		case 'p':
			i2, _ := arg.(iface)
			s := ex.addressText(i2.v)
			if o, isO := s.(*Opaque); isO {
				return o
			}
			out = append(out, strBytes(s)...)
		default:
			return &Opaque{why: "Sprintf verb %" + string(verb)}
		}
	}
	return mkString(out)
}

func addHost(m map[string]extFn) {
	m["fmt.Sprintf"] = func(ex *Exec, fr *frame, a []value) value {
		return ex.sprintf(fr, a[0], a[1].([]value))
	}
	m["fmt.Sprint"] = func(ex *Exec, fr *frame, a []value) value {
		args := a[0].([]value)
		host := make([]interface{}, len(args))
		for i, x := range args {
			h, ok := ex.toHost(fr, x)
			if !ok {
				return &Opaque{why: "Sprint of symbolic argument"}
			}
			host[i] = h
		}
		return fmt.Sprint(host...)
	}
	m["fmt.Errorf"] = func(ex *Exec, fr *frame, a []value) value {
		s := ex.sprintf(fr, a[0], a[1].([]value))
		p := new(value)
		*p = structure{s}
		return iface{t: ex.prog.errorsErrorStringPtr, v: p}
	}
	// strconv
	quote := func(name string, f func(string) string) {
		m[name] = func(ex *Exec, fr *frame, a []value) value {
			if s, ok := a[0].(string); ok {
				return f(s)
			}
			return &Opaque{why: name + " of symbolic string"}
		}
	}
	quote("strconv.Quote", strconv.Quote)
	quote("strconv.QuoteToASCII", strconv.QuoteToASCII)
	quote("strconv.QuoteToGraphic", strconv.QuoteToGraphic)
	m["strconv.QuoteRune"] = func(ex *Exec, fr *frame, a []value) value {
		if r, ok := a[0].(I); ok {
			return strconv.QuoteRune(rune(int32(uint32(r))))
		}
		return &Opaque{why: "QuoteRune of symbolic rune"}
	}
	m["strconv.ParseFloat"] = func(ex *Exec, fr *frame, a []value) value {
		s, ok := a[0].(string)
		if !ok {
			panic(unsupported("strconv.ParseFloat of symbolic string"))
		}
		f, err := strconv.ParseFloat(s, int(a[1].(I)))
		return tuple{f, ex.errOrNil(err)}
	}
	m["math.Pow"] = func(ex *Exec, fr *frame, a []value) value { return math.Pow(a[0].(float64), a[1].(float64)) }
	m["math.Float64bits"] = func(ex *Exec, fr *frame, a []value) value { return I(math.Float64bits(a[0].(float64))) }
	m["math.Float64frombits"] = func(ex *Exec, fr *frame, a []value) value {
		return math.Float64frombits(uint64(a[0].(I)))
	}

	// regexp
	compile := func(ex *Exec, fr *frame, a []value, must bool) value {
		s, ok := a[0].(string)
		if !ok {
			// uninterpreted validity predicate of the pattern (C18)
			v := ex.uninterp["regexp.valid"]
			if v == nil {
				v = ex.freshVar("regexp.valid", sortBool)
				ex.uninterp["regexp.valid"] = v
			}
			if ex.branchT(v) {
				if must {
					return &Host{v: (*regexp.Regexp)(nil)}
				}
				return tuple{&Host{v: (*regexp.Regexp)(nil)}, iface{}}
			}
			if must {
				panic(targetPanic{iface{t: types.Typ[types.String], v: "regexp: Compile: invalid pattern"}})
			}
			return tuple{(*value)(nil), ex.hostError("error parsing regexp")}
		}
		re, err := regexp.Compile(s)
		if err != nil {
			if must {
				panic(targetPanic{iface{t: types.Typ[types.String], v: "regexp: Compile(" + strconv.Quote(s) + "): " + err.Error()}})
			}
			return tuple{(*value)(nil), ex.hostError(err.Error())}
		}
		if must {
			return &Host{v: re}
		}
		return tuple{&Host{v: re}, iface{}}
	}
	m["regexp.Compile"] = func(ex *Exec, fr *frame, a []value) value { return compile(ex, fr, a, false) }
	m["regexp.MustCompile"] = func(ex *Exec, fr *frame, a []value) value { return compile(ex, fr, a, true) }
	hostRE := func(v value) *regexp.Regexp {
		h, ok := v.(*Host)
		if !ok {
			panic(unsupported("regexp method on non-host value"))
		}
		re, _ := h.v.(*regexp.Regexp)
		if re == nil {
			panic(unsupported("use of a regexp compiled from a symbolic pattern"))
		}
		return re
	}
	m["(*regexp.Regexp).Match"] = func(ex *Exec, fr *frame, a []value) value {
		b, ok := concreteBytes(a[1])
		if !ok {
			panic(unsupported("regexp.Match on symbolic bytes"))
		}
		return hostRE(a[0]).Match(b)
	}
	m["(*regexp.Regexp).MatchString"] = func(ex *Exec, fr *frame, a []value) value {
		s, ok := a[1].(string)
		if !ok {
			panic(unsupported("regexp.MatchString on symbolic string"))
		}
		return hostRE(a[0]).MatchString(s)
	}
	m["(*regexp.Regexp).String"] = func(ex *Exec, fr *frame, a []value) value { return hostRE(a[0]).String() }
	m["(*regexp.Regexp).ReplaceAllString"] = func(ex *Exec, fr *frame, a []value) value {
		s, ok1 := a[1].(string)
		r, ok2 := a[2].(string)
		if !ok1 || !ok2 {
			panic(unsupported("regexp.ReplaceAllString on symbolic string"))
		}
		return hostRE(a[0]).ReplaceAllString(s, r)
	}

	// reggen
	m["github.com/lucasjones/reggen.NewGenerator"] = func(ex *Exec, fr *frame, a []value) value {
		s, ok := a[0].(string)
		if !ok {
			panic(unsupported("reggen.NewGenerator on symbolic pattern"))
		}
		g, err := reggen.NewGenerator(s)
		if err != nil {
			return tuple{(*value)(nil), ex.hostError(err.Error())}
		}
		return tuple{&Host{v: g}, iface{}}
	}
	m["(*github.com/lucasjones/reggen.Generator).SetSeed"] = func(ex *Exec, fr *frame, a []value) value {
		a[0].(*Host).v.(*reggen.Generator).SetSeed(int64(a[1].(I)))
		return nil
	}
	m["(*github.com/lucasjones/reggen.Generator).Generate"] = func(ex *Exec, fr *frame, a []value) (res value) {
		// the generator panics on patterns it cannot produce a string for:
		// that is a panic of the code under test, not of the interpreter
		defer func() {
			if r := recover(); r != nil {
				switch r := r.(type) {
				case targetPanic, pathAbort:
					panic(r)
				case error:
					ex.panicRuntime(strings.TrimPrefix(r.Error(), "runtime error: "))
				default:
					panic(targetPanic{iface{t: types.Typ[types.String], v: fmt.Sprint(r)}})
				}
			}
		}()
		return a[0].(*Host).v.(*reggen.Generator).Generate(int(a[1].(I)))
	}

	// time / mail / url: only the error result matters to the repository
	m["time.Parse"] = func(ex *Exec, fr *frame, a []value) value {
		l, ok1 := a[0].(string)
		s, ok2 := a[1].(string)
		if !ok1 || !ok2 {
			panic(unsupported("time.Parse on symbolic string"))
		}
		_, err := time.Parse(l, s)
		return tuple{zero(fr.fn.Signature.Results().At(0).Type()), ex.errOrNil(err)}
	}
	m["net/mail.ParseAddress"] = func(ex *Exec, fr *frame, a []value) value {
		s, ok := a[0].(string)
		if !ok {
			panic(unsupported("mail.ParseAddress on symbolic string"))
		}
		_, err := mail.ParseAddress(s)
		return tuple{(*value)(nil), ex.errOrNil(err)}
	}
	m["net/url.ParseRequestURI"] = func(ex *Exec, fr *frame, a []value) value {
		s, ok := a[0].(string)
		if !ok {
			panic(unsupported("url.ParseRequestURI on symbolic string"))
		}
		_, err := url.ParseRequestURI(s)
		return tuple{(*value)(nil), ex.errOrNil(err)}
	}

	// encoding/json for strings only
	m["encoding/json.Marshal"] = func(ex *Exec, fr *frame, a []value) value {
		i, _ := a[0].(iface)
		if s, ok := i.v.(string); ok && i.t != nil && isString(i.t) {
			b, err := json.Marshal(s)
			return tuple{bytesValue(b), ex.errOrNil(err)}
		}
		if s, ok := i.v.(*SymStr); ok && i.t != nil && isString(i.t) {
			return tuple{ex.jsonEncodeString(s.b), iface{}}
		}
		if ex.stubJSON {
			// the harness asked for value marshalling to be replaced by a token
			// (reflection is not executed); only the surrounding text is checked
			return tuple{bytesValue([]byte("0")), iface{}}
		}
		panic(unsupported("encoding/json.Marshal of a non-string value (reflection)"))
	}
	m["encoding/json.Unmarshal"] = func(ex *Exec, fr *frame, a []value) value {
		data, ok := concreteBytes(a[0])
		i, _ := a[1].(iface)
		pt, isPtr := i.t.(*types.Pointer)
		if !isPtr || !isString(pt.Elem()) {
			panic(unsupported("encoding/json.Unmarshal into a non-*string target (reflection)"))
		}
		if !ok {
			s, good := ex.jsonDecodeString(a[0].([]value))
			if !good {
				return ex.hostError("invalid JSON string")
			}
			if s != nil {
				*(i.v.(*value)) = s
			}
			return iface{}
		}
		var s string
		err := json.Unmarshal(data, &s)
		if err == nil {
			*(i.v.(*value)) = s
		}
		return ex.errOrNil(err)
	}
}
