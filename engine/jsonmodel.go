package main

// Model of encoding/json.Unmarshal(data, *string) for data with symbolic
// bytes: the JSON string codec, forking on byte classes. Exotic corners
// (symbolic non-ASCII bytes, symbolic \u escapes forming surrogates) are
// reported as unsupported rather than approximated.

import (
	"unicode/utf8"
)

// jsonDecodeString returns (decoded string value, ok). ok=false means
// encoding/json would return an error.
func (ex *Exec) jsonDecodeString(bs []value) (value, bool) {
	tc := ex.tc
	is := func(v value, c byte) bool { return ex.truth(fromTerm(ex.byteEq(v, I(c)))) }
	isBlank := func(v value) bool {
		t := ex.toTerm(v, 8)
		c := tc.Or(tc.Or(tc.Eq(t, tc.BV(' ', 8)), tc.Eq(t, tc.BV('\t', 8))), tc.Or(tc.Eq(t, tc.BV('\n', 8)), tc.Eq(t, tc.BV('\r', 8))))
		return ex.truth(fromTerm(c))
	}
	i, n := 0, len(bs)
	for i < n && isBlank(bs[i]) {
		i++
	}
	if i >= n || !is(bs[i], '"') {
		// not a string: "null" leaves the target untouched without an error;
		// any other JSON value (or invalid JSON) is an error for a *string target
		j := n
		for j > i && isBlank(bs[j-1]) {
			j--
		}
		if j-i == 4 && ex.truth(ex.stringBinop(tokEQL, mkString(bs[i:j]), "null")) {
			return nil, true
		}
		return nil, false
	}
	i++
	var out []value
	for {
		if i >= n {
			return nil, false
		}
		c := bs[i]
		if is(c, '"') {
			i++
			break
		}
		if is(c, '\\') {
			i++
			if i >= n {
				return nil, false
			}
			e := bs[i]
			i++
			done := false
			for _, p := range [][2]byte{{'"', '"'}, {'\\', '\\'}, {'/', '/'}, {'b', '\b'}, {'f', '\f'}, {'n', '\n'}, {'r', '\r'}, {'t', '\t'}} {
				if is(e, p[0]) {
					out = append(out, I(p[1]))
					done = true
					break
				}
			}
			if done {
				continue
			}
			if !is(e, 'u') {
				return nil, false
			}
			if i+4 > n {
				return nil, false
			}
			var r rune
			for k := 0; k < 4; k++ {
				h := bs[i+k]
				t := ex.toTerm(h, 8)
				isHex := tc.Or(tc.Or(
					tc.And(tc.BVCmp(OpBVUle, tc.BV('0', 8), t), tc.BVCmp(OpBVUle, t, tc.BV('9', 8))),
					tc.And(tc.BVCmp(OpBVUle, tc.BV('a', 8), t), tc.BVCmp(OpBVUle, t, tc.BV('f', 8)))),
					tc.And(tc.BVCmp(OpBVUle, tc.BV('A', 8), t), tc.BVCmp(OpBVUle, t, tc.BV('F', 8))))
				if !ex.truth(fromTerm(isHex)) {
					return nil, false
				}
				hv := byte(ex.concreteInt(h, "json \\u hex digit"))
				var d rune
				switch {
				case hv >= '0' && hv <= '9':
					d = rune(hv - '0')
				case hv >= 'a' && hv <= 'f':
					d = rune(hv-'a') + 10
				default:
					d = rune(hv-'A') + 10
				}
				r = r<<4 | d
			}
			i += 4
			if r >= 0xD800 && r <= 0xDFFF {
				panic(unsupported("json string model: surrogate \\u escape next to symbolic bytes"))
			}
			var buf [4]byte
			k := utf8.EncodeRune(buf[:], r)
			for _, b := range buf[:k] {
				out = append(out, I(b))
			}
			continue
		}
		t := ex.toTerm(c, 8)
		if ex.truth(fromTerm(tc.BVCmp(OpBVUlt, t, tc.BV(0x20, 8)))) {
			return nil, false
		}
		if ex.truth(fromTerm(tc.BVCmp(OpBVUle, tc.BV(0x80, 8), t))) {
			if _, conc := c.(I); !conc {
				panic(unsupported("json string model: symbolic non-ASCII byte (UTF-8 validation)"))
			}
			// concrete multi-byte sequence: validate as encoding/json does
			var buf []byte
			for k := i; k < n && k < i+4; k++ {
				cb, ok := bs[k].(I)
				if !ok {
					break
				}
				buf = append(buf, byte(cb))
			}
			r, size := utf8.DecodeRune(buf)
			if r == utf8.RuneError && size == 1 {
				for _, b := range []byte(string(utf8.RuneError)) {
					out = append(out, I(b))
				}
				i++
				continue
			}
			for k := 0; k < size; k++ {
				out = append(out, bs[i+k])
			}
			i += size
			continue
		}
		out = append(out, c)
		i++
	}
	for i < n && isBlank(bs[i]) {
		i++
	}
	if i != n {
		return nil, false
	}
	return mkString(out), true
}

// jsonEncodeString models encoding/json.Marshal(string) (HTML escaping on, as
// json.Marshal does) for strings with symbolic bytes.
func (ex *Exec) jsonEncodeString(bs []value) []value {
	tc := ex.tc
	out := []value{I('"')}
	const hex = "0123456789abcdef"
	emitConcrete := func(c byte) {
		switch {
		case c == '"' || c == '\\':
			out = append(out, I('\\'), I(c))
		case c == '\n':
			out = append(out, I('\\'), I('n'))
		case c == '\r':
			out = append(out, I('\\'), I('r'))
		case c == '\t':
			out = append(out, I('\\'), I('t'))
		case c < 0x20 || c == '<' || c == '>' || c == '&':
			out = append(out, I('\\'), I('u'), I('0'), I('0'), I(hex[c>>4]), I(hex[c&0xF]))
		default:
			out = append(out, I(c))
		}
	}
	for i := 0; i < len(bs); i++ {
		switch b := bs[i].(type) {
		case I:
			if b >= 0x80 {
				// concrete multi-byte sequence: validate like encoding/json
				var buf []byte
				for k := i; k < len(bs) && k < i+4; k++ {
					cb, ok := bs[k].(I)
					if !ok {
						break
					}
					buf = append(buf, byte(cb))
				}
				r, size := utf8.DecodeRune(buf)
				switch {
				case r == utf8.RuneError && size == 1:
					for _, c := range []byte("\\ufffd") {
						out = append(out, I(c))
					}
				case r == 0x2028 || r == 0x2029:
					for _, c := range []byte("\\u202") {
						out = append(out, I(c))
					}
					out = append(out, I(hex[r&0xF]))
				default:
					for k := 0; k < size; k++ {
						out = append(out, bs[i+k])
					}
				}
				i += size - 1
				continue
			}
			emitConcrete(byte(b))
		case *Term:
			special := tc.Or(tc.Or(tc.BVCmp(OpBVUlt, b, tc.BV(0x20, 8)), tc.BVCmp(OpBVUle, tc.BV(0x80, 8), b)),
				tc.Or(tc.Or(tc.Eq(b, tc.BV('"', 8)), tc.Eq(b, tc.BV('\\', 8))),
					tc.Or(tc.Eq(b, tc.BV('<', 8)), tc.Or(tc.Eq(b, tc.BV('>', 8)), tc.Eq(b, tc.BV('&', 8))))))
			if !ex.branchT(special) {
				out = append(out, b) // plain byte, stays symbolic
				continue
			}
			if ex.branchT(tc.BVCmp(OpBVUle, tc.BV(0x80, 8), b)) {
				panic(unsupported("json string model: symbolic non-ASCII byte (UTF-8 validation)"))
			}
			emitConcrete(byte(ex.concretize(b)))
		}
	}
	return append(out, I('"'))
}
