package main

import (
	"encoding/json"
	"os/exec"
	"flag"
	"fmt"
	"os"
	"path/filepath"
	"runtime"
	"sort"
	"strconv"
	"strings"
	"time"

	"golang.org/x/tools/go/ssa"
)

const (
	exitOK           = 0
	exitViolation    = 1
	exitInconclusive = 3
)

func main() {
	if len(os.Args) < 2 {
		fmt.Fprintln(os.Stderr, "usage: symgo check|replay|selftest ...")
		os.Exit(2)
	}
	switch os.Args[1] {
	case "check":
		os.Exit(cmdCheck(os.Args[2:]))
	case "replay":
		os.Exit(cmdReplay(os.Args[2:]))
	case "selftest":
		os.Exit(cmdSelftest(os.Args[2:]))
	}
	fmt.Fprintln(os.Stderr, "unknown command", os.Args[1])
	os.Exit(2)
}

type KnownFinding struct {
	Property string `json:"property"`
	Name     string `json:"name"`
	What     string `json:"what"`
	Status   string `json:"status"` // open | fixed
	Commit   string `json:"commit,omitempty"`
}

func loadKnown(verifDir, prop string) (map[string]bool, map[string]KnownFinding) {
	active := map[string]bool{}
	byName := map[string]KnownFinding{}
	data, err := os.ReadFile(filepath.Join(verifDir, "known_findings.json"))
	if err != nil {
		return active, byName
	}
	var doc struct {
		Findings []KnownFinding `json:"findings"`
	}
	if json.Unmarshal(data, &doc) != nil {
		return active, byName
	}
	for _, f := range doc.Findings {
		if f.Property == prop && f.Status == "open" {
			active[f.Name] = true
			byName[f.Name] = f
		}
	}
	return active, byName
}

// harnessDirs finds the harness package directories that contain harnesses of prop.
func harnessDirs(verifDir, prop string) []string {
	var dirs []string
	root := filepath.Join(verifDir, "harness")
	filepath.Walk(root, func(path string, info os.FileInfo, err error) error {
		if err != nil || info.IsDir() || !strings.HasSuffix(path, ".go") || strings.HasSuffix(path, "_test.go") {
			return nil
		}
		data, _ := os.ReadFile(path)
		if strings.Contains(string(data), "func Verif"+prop+"_") {
			rel, _ := filepath.Rel(root, filepath.Dir(path))
			for _, d := range dirs {
				if d == rel {
					return nil
				}
			}
			dirs = append(dirs, rel)
		}
		return nil
	})
	sort.Strings(dirs)
	return dirs
}

type Evidence struct {
	PropertyID  string                 `json:"property_id"`
	Tier        string                 `json:"tier"`
	Seed        int64                  `json:"seed"`
	Level       string                 `json:"level"`
	Coverage    map[string]interface{} `json:"coverage"`
	Assumptions []string               `json:"assumptions"`
	WallS       float64                `json:"wall_s"`
	Violations  int                    `json:"violations"`
}

func cmdCheck(args []string) int {
	fs := flag.NewFlagSet("check", flag.ExitOnError)
	prop := fs.String("prop", "", "property id, e.g. C13")
	tier := fs.String("tier", "", "quick|thorough")
	repo := fs.String("repo", "/repo", "repository working tree")
	verif := fs.String("verif", "/verif", "verification directory")
	workers := fs.Int("workers", 0, "worker count (default: NumCPU)")
	only := fs.String("only", "", "run only harnesses whose name contains this")
	maxPaths := fs.Int64("maxpaths", 0, "stop after this many paths (inconclusive)")
	timeout := fs.Duration("timeout", 0, "overall exploration deadline (inconclusive when hit)")
	noReplay := fs.Bool("noreplay", false, "skip native witness replay (debugging)")
	noEvidence := fs.Bool("noevidence", false, "do not write the evidence file")
	verbose := fs.Bool("v", false, "verbose")
	solver := fs.String("solver", "z3", "z3|z3-new|cvc5")
	fs.Parse(args)
	if *tier == "" {
		*tier = os.Getenv("VERIF_TIER")
	}
	if *tier == "" {
		*tier = "quick"
	}
	seed := int64(1)
	if s := os.Getenv("VERIF_SEED"); s != "" {
		if v, err := strconv.ParseInt(s, 10, 64); err == nil {
			seed = v
		}
	}
	if *workers == 0 {
		*workers = runtime.NumCPU()
	}
	if f := os.Getenv("SYMGO_SLOWLOG"); f != "" {
		slowLog, _ = os.Create(f)
	}
	t0 := time.Now()
	dirs := harnessDirs(*verif, *prop)
	if len(dirs) == 0 {
		fmt.Printf("INCONCLUSIVE property=%s reason=no harness found\n", *prop)
		return exitInconclusive
	}
	p, err := loadProgram(*repo, *verif, dirs)
	if err != nil {
		fmt.Printf("INCONCLUSIVE property=%s reason=load failed: %v\n", *prop, err)
		return exitInconclusive
	}
	p.rng.Seed(seed)
	loadS := time.Since(t0).Seconds()
	for _, w := range p.initStd() {
		fmt.Fprintln(os.Stderr, "warning:", w)
	}
	hs := p.harnessFuncs(*prop)
	if *only != "" {
		var f []*ssa.Function
		for _, h := range hs {
			if strings.Contains(h.Name(), *only) {
				f = append(f, h)
			}
		}
		hs = f
	}
	if len(hs) == 0 {
		fmt.Printf("INCONCLUSIVE property=%s reason=no harness function\n", *prop)
		return exitInconclusive
	}
	active, known := loadKnown(*verif, *prop)
	cfg := &RunConfig{
		Tier: *tier, StepBudget: 3_000_000, DepthBudget: 2000, Workers: *workers,
		SolverName: *solver, TimeoutMs: 60000, MaxPaths: *maxPaths, KnownActive: active, Progress: *verbose,
	}
	if *tier == "thorough" {
		cfg.StepBudget = 20_000_000
		cfg.TimeoutMs = 120000
	}
	if *timeout > 0 {
		cfg.Deadline = time.Now().Add(*timeout)
	}
	t1 := time.Now()
	st := p.explore(hs, cfg)
	exploreS := time.Since(t1).Seconds()

	// ---- verdict ----
	var inconclusive []string
	if st.Truncated {
		inconclusive = append(inconclusive, "exploration truncated (maxpaths/timeout)")
	}
	for _, o := range []string{"unsupported", "engine", "bound"} {
		if st.ByOutcome[o] > 0 {
			// bound is a violation only when the harness asked for it; such paths carry a Violation
			n := int64(0)
			var ex string
			for _, r := range st.Results {
				if r.Outcome == o && len(r.Viol) == 0 {
					n++
					if ex == "" {
						ex = r.Harness + ": " + firstLine(r.Detail)
					}
				}
			}
			if n > 0 {
				inconclusive = append(inconclusive, fmt.Sprintf("%d path(s) ended %s (e.g. %s)", n, o, ex))
			}
		}
	}
	if st.Unknown > 0 || st.SolverErr > 0 {
		// unknown on feasibility is sound (both sides explored); unknown on an
		// assertion is recorded as a violation of kind "unknown" below.
	}
	var viols []Violation
	for _, r := range st.Results {
		for _, v := range r.Viol {
			if v.Kind == "unknown" {
				inconclusive = append(inconclusive, "solver unknown on assertion "+v.Harness+"/"+v.Label)
				continue
			}
			viols = append(viols, v)
		}
	}
	// vacuity: every expected Reach label must be hit
	for h, labels := range p.expects {
		for l := range labels {
			if st.ReachLabels[h+"/"+l] == 0 {
				inconclusive = append(inconclusive, "reach label never hit: "+h+"/"+l)
			}
		}
	}
	sort.Strings(inconclusive)

	// ---- native replay: counterexamples and path witnesses ----
	rp := &replayer{p: p, tier: *tier, verbose: *verbose}
	confirmed := []Violation{}
	replayed := 0
	mismatches := []string{}
	if !*noReplay {
		var cases []replayCase
		for i, v := range viols {
			if v.Inputs == nil {
				continue
			}
			cases = append(cases, replayCase{ID: i, Pkg: p.pkgOfHarness(v.Harness), Harness: v.Harness, Inputs: v.Inputs, Repeat: 200, expectViolation: &viols[i]})
		}
		base := len(cases)
		for i, r := range st.AllInputs {
			if len(r.Viol) > 0 {
				continue
			}
			rc := replayCase{ID: base + i, Pkg: p.pkgOfHarness(r.Harness), Harness: r.Harness, Inputs: r.Inputs, expectEvents: r.Events, expectEnd: r.Outcome}
			cases = append(cases, rc)
		}
		if len(cases) > 0 {
			results, err := rp.run(cases)
			if err != nil {
				inconclusive = append(inconclusive, "native replay failed: "+err.Error())
			} else {
				for _, c := range cases {
					res, ok := results[c.ID]
					if c.expectViolation != nil {
						if ok && violationReproduced(c.expectViolation, res) {
							confirmed = append(confirmed, *c.expectViolation)
						} else {
							mismatches = append(mismatches, fmt.Sprintf("counterexample not reproduced natively: %s/%s inputs=%v native=%v", c.Harness, c.expectViolation.Label, c.Inputs, res))
						}
						continue
					}
					replayed++
					if !ok {
						mismatches = append(mismatches, fmt.Sprintf("no native result for %s", c.Harness))
						continue
					}
					if msg := compareWitness(c, res); msg != "" {
						mismatches = append(mismatches, msg)
					}
				}
			}
		}
	} else {
		confirmed = viols
	}
	for _, mm := range mismatches {
		inconclusive = append(inconclusive, "ENGINE-MISMATCH "+mm)
	}

	// ---- report ----
	wall := time.Since(t0).Seconds()
	exit := exitOK
	for k, n := range st.KnownHits {
		name := strings.SplitN(k, ":", 2)[0]
		what := k
		for _, nm := range strings.Split(name, "|") {
			if f, ok := known[nm]; ok {
				what = nm + " — " + f.What
			}
		}
		fmt.Printf("KNOWN-FINDING: property=%s %s (%d path(s))\n", *prop, what, n)
	}
	replayDir := filepath.Join(*verif, "replay")
	os.MkdirAll(replayDir, 0o755)
	seen := map[string]bool{}
	for _, v := range confirmed {
		key := v.Harness + "/" + v.Label
		if seen[key] {
			continue
		}
		seen[key] = true
		path := filepath.Join(replayDir, fmt.Sprintf("%s_%s_%s.json", *prop, v.Harness, sanitize(v.Label)))
		writeReplayFile(path, *tier, p.pkgOfHarness(v.Harness), v)
		fmt.Printf("VIOLATION property=%s replay=%s\n", *prop, path)
		fmt.Printf("  harness=%s label=%q kind=%s detail=%s\n  inputs=%s\n", v.Harness, v.Label, v.Kind, v.Detail, renderInputs(v.Inputs))
		exit = exitViolation
	}
	if exit == exitOK && len(inconclusive) > 0 {
		exit = exitInconclusive
		for i, s := range inconclusive {
			if i >= 12 {
				fmt.Printf("  ... %d more\n", len(inconclusive)-i)
				break
			}
			fmt.Printf("INCONCLUSIVE property=%s reason=%s\n", *prop, s)
		}
	}
	fmt.Printf("symgo: property=%s tier=%s harnesses=%d paths=%d (ok=%d panic=%d stopped=%d infeasible=%d unsupported=%d bound=%d engine=%d) forks=%d queries=%d (sat=%d unsat=%d unknown=%d err=%d) solver=%.1fs load=%.1fs explore=%.1fs replayed=%d wall=%.1fs exit=%d\n",
		*prop, *tier, len(hs), st.Paths, st.ByOutcome["ok"], st.ByOutcome["panic"], st.ByOutcome["stopped"], st.ByOutcome["infeasible"], st.ByOutcome["unsupported"], st.ByOutcome["bound"], st.ByOutcome["engine"],
		st.Forks, st.Queries, st.Sat, st.Unsat, st.Unknown, st.SolverErr, st.SolverTime.Seconds(), loadS, exploreS, replayed, wall, exit)
	if *verbose {
		for _, r := range st.Results {
			fmt.Printf("  path %s outcome=%s detail=%s inputs=%s\n", r.Harness, r.Outcome, firstLine(r.Detail), renderInputs(r.Inputs))
			if r.Outcome == "engine" {
				fmt.Println(r.Detail)
			}
		}
	}

	if !*noEvidence {
		ev := buildEvidence(p, *prop, *tier, seed, st, hs, cfg, replayed, len(confirmed), inconclusive, wall, exit)
		os.MkdirAll(filepath.Join(*verif, "evidence"), 0o755)
		data, _ := json.MarshalIndent(ev, "", " ")
		os.WriteFile(filepath.Join(*verif, "evidence", *prop+".json"), data, 0o644)
	}
	return exit
}

func firstLine(s string) string {
	if i := strings.IndexByte(s, '\n'); i >= 0 {
		return s[:i]
	}
	return s
}

func sanitize(s string) string {
	var sb strings.Builder
	for _, c := range s {
		if (c >= 'a' && c <= 'z') || (c >= 'A' && c <= 'Z') || (c >= '0' && c <= '9') {
			sb.WriteRune(c)
		} else {
			sb.WriteByte('_')
		}
	}
	r := sb.String()
	if len(r) > 40 {
		r = r[:40]
	}
	return r
}

// renderInputs prints inputs compactly, grouping name[i] byte arrays as strings.
func renderInputs(in map[string]uint64) string {
	if in == nil {
		return "{}"
	}
	arrays := map[string]map[int]uint64{}
	scalars := map[string]uint64{}
	for k, v := range in {
		if i := strings.LastIndexByte(k, '['); i > 0 && strings.HasSuffix(k, "]") {
			idx, err := strconv.Atoi(k[i+1 : len(k)-1])
			if err == nil {
				if arrays[k[:i]] == nil {
					arrays[k[:i]] = map[int]uint64{}
				}
				arrays[k[:i]][idx] = v
				continue
			}
		}
		scalars[k] = v
	}
	var parts []string
	for name, m := range arrays {
		b := make([]byte, len(m))
		for i := range b {
			b[i] = byte(m[i])
		}
		parts = append(parts, fmt.Sprintf("%s=%q", name, string(b)))
	}
	for k, v := range scalars {
		if v >= 0x20 && v < 0x7f {
			parts = append(parts, fmt.Sprintf("%s=%d(%q)", k, v, rune(v)))
		} else {
			parts = append(parts, fmt.Sprintf("%s=%d", k, v))
		}
	}
	sort.Strings(parts)
	return "{" + strings.Join(parts, " ") + "}"
}

func (p *Program) pkgOfHarness(name string) string {
	for _, pkg := range p.prog.AllPackages() {
		if isStdPkg(pkg.Pkg) {
			continue
		}
		if _, ok := pkg.Members[name]; ok {
			return pkg.Pkg.Path()
		}
	}
	return ""
}

func buildEvidence(p *Program, prop, tier string, seed int64, st *RunStats, hs []*ssa.Function, cfg *RunConfig, replayed, nviol int, inconclusive []string, wall float64, exit int) *Evidence {
	var fnames []string
	repoInstr, stdInstr := 0, 0
	perPkg := map[string]int{}
	for f, n := range p.cov.Funcs {
		if strings.Contains(f, repoModule) && !strings.Contains(f, "/zzverif") && !strings.Contains(f, ".Verif") {
			fnames = append(fnames, f)
			repoInstr += n
		} else {
			stdInstr += n
		}
		perPkg[pkgOfFuncName(f)] += n
	}
	sort.Strings(fnames)
	var exts []string
	for f := range p.cov.Externals {
		exts = append(exts, f)
	}
	sort.Strings(exts)
	var hnames []string
	for _, h := range hs {
		hnames = append(hnames, h.String())
	}
	var samples []interface{}
	// a few witnesses per harness, rendered
	perH := map[string]int{}
	for _, r := range st.AllInputs {
		if perH[r.Harness] >= 3 {
			continue
		}
		perH[r.Harness]++
		samples = append(samples, map[string]interface{}{
			"harness": r.Harness, "inputs": renderInputs(r.Inputs), "outcome": r.Outcome, "events": r.Events, "steps": r.Steps,
		})
		if len(samples) >= 40 {
			break
		}
	}
	if len(samples) == 0 {
		samples = append(samples, "no completed path")
	}
	reach := map[string]int64{}
	for k, v := range st.ReachLabels {
		reach[k] = v
	}
	cov := map[string]interface{}{
		"states":                        st.Paths - st.ByOutcome["infeasible"],
		"transitions":                   st.Queries,
		"traces_validated_against_impl": replayed,
		"samples":                       samples,
		"evaluations":                   st.Paths,
		"distinct_nontrivial":           st.Symbolic,
		"rule":                          "one evaluation = one complete path of the real code through a harness, identified by its vector of solver-decided fork decisions (so paths are pairwise distinct); non-trivial = the path condition mentions at least one symbolic input",
		"harnesses":                     hnames,
		"functions_encoded":             fnames,
		"functions_encoded_count":       len(fnames),
		"repo_ssa_instructions_encoded": repoInstr,
		"std_ssa_instructions_encoded":  stdInstr,
		"externals_hit":                 exts,
		"bounds":                        p.bounds,
		"step_budget":                   cfg.StepBudget,
		"depth_budget":                  cfg.DepthBudget,
		"max_steps_per_path":            p.cov.MaxSteps,
		"max_call_depth":                p.cov.MaxDepth,
		"paths_by_outcome":              st.ByOutcome,
		"queries":                       map[string]int{"total": st.Queries, "sat": st.Sat, "unsat": st.Unsat, "unknown": st.Unknown, "solver_errors": st.SolverErr},
		"solver":                        cfg.SolverName,
		"solver_s":                      st.SolverTime.Seconds(),
		"forks":                         st.Forks,
		"reach_labels":                  reach,
		"known_finding_hits":            st.KnownHits,
		"paths_decided_by_uninterpreted_predicate_not_replayed": st.NoReplay,
		"inconclusive":                  inconclusive,
		"exit":                          exit,
		"exhaustive":                    exit == 0 && !st.Truncated,
		"explanation":                   "bounded symbolic execution of the real SSA of /repo (regenerated on this run); every listed bound is exhausted when exhaustive=true",
	}
	return &Evidence{
		PropertyID: prop, Tier: tier, Seed: seed, Level: "model_checking", Coverage: cov,
		Assumptions: []string{
			"go/ssa (x/tools v0.29.0) faithfully represents the Go source; the symgo interpreter implements go/ssa semantics (checked every run by native replay of path witnesses)",
			"z3 4.8.12 answers are correct; unknown/timeouts/errors are never counted as discharged",
			"host-called library functions (fmt on concrete data, regexp, time, net/mail, net/url, strconv.ParseFloat) behave as in the real build",
			"sync primitives are modelled sequentially; no goroutines",
			"inputs outside the stated bounds (lengths, alphabets, templates) are outside the claim",
		},
		WallS: wall, Violations: nviol,
	}
}

func pkgOfFuncName(f string) string {
	f = strings.TrimLeft(f, "(*")
	if i := strings.LastIndex(f, "."); i >= 0 {
		f = f[:i]
	}
	if i := strings.Index(f, ")"); i >= 0 {
		f = f[:i]
	}
	return f
}

func cmdSelftest(args []string) int {
	// minimal: make sure the solvers answer
	for _, name := range []string{"z3"} {
		s, err := NewSolver(name, 5000)
		if err != nil {
			fmt.Println("selftest: cannot start", name, err)
			return 1
		}
		tc := NewTermCtx()
		x := tc.Var("v0", bv(8))
		s.Assert(tc, tc.BVCmp(OpBVUlt, x, tc.BV(3, 8)))
		if s.Check(tc, tc.Eq(x, tc.BV(5, 8))) != RUnsat || s.Check(tc, tc.Eq(x, tc.BV(2, 8))) != RSat {
			fmt.Println("selftest: solver", name, "gave a wrong answer")
			return 1
		}
		s.Close()
	}
	n, bad := selftestUTF8()
	if bad != "" {
		fmt.Println("selftest:", bad)
		return 1
	}
	fmt.Printf("selftest: utf8.DecodeRune term model agrees with the real function on %d inputs\n", n)
	if os.Getenv("SYMGO_SKIP_REFS") == "" {
		if out, err := validateReferences("/repo", "/verif"); err != nil {
			fmt.Println("selftest: reference decoder validation failed:", err)
			fmt.Println(out)
			return 1
		} else {
			fmt.Println("selftest: reference JSON decoder (zzjson) agrees with encoding/json:", lastLine(out))
		}
	}
	fmt.Println("selftest ok")
	return 0
}

func lastLine(s string) string {
	lines := strings.Split(strings.TrimSpace(s), "\n")
	for i := len(lines) - 1; i >= 0; i-- {
		if strings.Contains(lines[i], "checked") || strings.HasPrefix(lines[i], "PASS") {
			return strings.TrimSpace(lines[i])
		}
	}
	return lines[len(lines)-1]
}

// validateReferences builds and runs the native test of the harnesses' reference
// JSON decoder (zzverif/zzjson) against encoding/json.
func validateReferences(repoDir, verifDir string) (string, error) {
	dir, err := os.MkdirTemp("", "symgo-refs-")
	if err != nil {
		return "", err
	}
	defer os.RemoveAll(dir)
	repl := map[string]string{}
	zzroot := filepath.Join(verifDir, "zzverif")
	filepath.Walk(zzroot, func(path string, info os.FileInfo, err error) error {
		if err == nil && !info.IsDir() && strings.HasSuffix(path, ".go") {
			rel, _ := filepath.Rel(zzroot, path)
			repl[filepath.Join(repoDir, "zzverif", rel)] = path
		}
		return nil
	})
	data, _ := json.Marshal(map[string]interface{}{"Replace": repl})
	ov := filepath.Join(dir, "overlay.json")
	os.WriteFile(ov, data, 0o644)
	bin := filepath.Join(dir, "zzjson.test")
	cmd := exec.Command("go", "test", "-vet=off", "-c", "-o", bin, "-overlay", ov, "./zzverif/zzjson")
	cmd.Dir = repoDir
	cmd.Env = append(os.Environ(), "GOFLAGS=-mod=mod", "GOPROXY=off", "GOSUMDB=off", "GOTOOLCHAIN=local")
	if out, err := cmd.CombinedOutput(); err != nil {
		return string(out), err
	}
	run := exec.Command(bin, "-test.v")
	out, err := run.CombinedOutput()
	return string(out), err
}
