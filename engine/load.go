package main

// Loading /repo (current working tree) + harness overlay into go/ssa.

import (
	"fmt"
	"go/types"
	"math/big"
	"math/rand"
	"os"
	"path/filepath"
	"sort"
	"strings"
	"sync"

	"golang.org/x/tools/go/packages"
	"golang.org/x/tools/go/ssa"
	"golang.org/x/tools/go/ssa/ssautil"
)

type bigInt = big.Int

const repoModule = "github.com/jsightapi/jsight-schema-core"

type extFn func(ex *Exec, fr *frame, args []value) value

type Program struct {
	prog       *ssa.Program
	pkgs       []*ssa.Package
	externals  map[string]extFn
	infos      map[*ssa.Function]*fnInfo
	infoMu     sync.RWMutex
	constCache constCacheT
	stdGlobals map[*ssa.Global]*value
	cov        *Coverage
	rng        *rand.Rand

	rtErrorString           types.Type
	rtBoundsError           types.Type
	rtPlainError            types.Type
	rtTypeAssertionErrorPtr types.Type
	rtErrorIface            *types.Interface
	errorsErrorStringPtr    types.Type

	implMu    sync.Mutex
	implCache map[[2]types.Type]bool

	expectMu sync.Mutex
	expects  map[string]map[string]bool
	bounds   map[string]int64

	repoDir  string
	verifDir string
	overlay  map[string][]byte
	loadSecs float64
}

type constCacheT struct {
	m sync.Map
}

func (c *constCacheT) Load(k *ssa.Const) (value, bool) {
	v, ok := c.m.Load(k)
	if !ok {
		return nil, false
	}
	return v.(value), true
}
func (c *constCacheT) Store(k *ssa.Const, v value) { c.m.Store(k, boxed{v}.v) }

type boxed struct{ v value }

func isStdPkg(p *types.Package) bool {
	if p == nil {
		return true
	}
	path := p.Path()
	first := path
	if i := strings.IndexByte(path, '/'); i >= 0 {
		first = path[:i]
	}
	return !strings.Contains(first, ".")
}

// buildOverlay maps harness and support files into the repository tree.
func buildOverlay(repoDir, verifDir string) (map[string][]byte, []string, error) {
	ov := map[string][]byte{}
	var pkgDirs []string
	zzroot := filepath.Join(verifDir, "zzverif")
	err := filepath.Walk(zzroot, func(path string, info os.FileInfo, err error) error {
		if err != nil {
			return err
		}
		if info.IsDir() || !strings.HasSuffix(path, ".go") {
			return nil
		}
		rel, _ := filepath.Rel(zzroot, path)
		data, err := os.ReadFile(path)
		if err != nil {
			return err
		}
		ov[filepath.Join(repoDir, "zzverif", rel)] = data
		return nil
	})
	if err != nil {
		return nil, nil, err
	}
	root := filepath.Join(verifDir, "harness")
	err = filepath.Walk(root, func(path string, info os.FileInfo, err error) error {
		if err != nil {
			return err
		}
		if info.IsDir() || !strings.HasSuffix(path, ".go") {
			return nil
		}
		rel, _ := filepath.Rel(root, path)
		data, err := os.ReadFile(path)
		if err != nil {
			return err
		}
		ov[filepath.Join(repoDir, rel)] = data
		d := filepath.Dir(rel)
		found := false
		for _, x := range pkgDirs {
			if x == d {
				found = true
			}
		}
		if !found {
			pkgDirs = append(pkgDirs, d)
		}
		return nil
	})
	sort.Strings(pkgDirs)
	return ov, pkgDirs, err
}

func loadProgram(repoDir, verifDir string, pkgDirs []string) (*Program, error) {
	ov, allDirs, err := buildOverlay(repoDir, verifDir)
	if err != nil {
		return nil, err
	}
	if pkgDirs == nil {
		pkgDirs = allDirs
	}
	// test files of the harness tree are for native replay only
	for k := range ov {
		if strings.HasSuffix(k, "_test.go") {
			delete(ov, k)
		}
	}
	var patterns []string
	for _, d := range pkgDirs {
		if d == "." {
			patterns = append(patterns, ".")
		} else {
			patterns = append(patterns, "./"+d)
		}
	}
	cfg := &packages.Config{
		Mode:    packages.LoadAllSyntax,
		Dir:     repoDir,
		Overlay: ov,
		Env:     append(os.Environ(), "GOFLAGS=-mod=mod", "GOPROXY=off", "GOSUMDB=off", "GOTOOLCHAIN=local", "CGO_ENABLED=0"),
		Tests:   false,
	}
	initial, err := packages.Load(cfg, patterns...)
	if err != nil {
		return nil, err
	}
	nerr := 0
	packages.Visit(initial, nil, func(p *packages.Package) {
		for _, e := range p.Errors {
			fmt.Fprintf(os.Stderr, "load error: %s: %v\n", p.PkgPath, e)
			nerr++
		}
	})
	if nerr > 0 {
		return nil, fmt.Errorf("%d package load errors", nerr)
	}
	prog, pkgs := ssautil.AllPackages(initial, ssa.InstantiateGenerics|ssa.SanityCheckFunctions&0)
	prog.Build()
	p := &Program{
		prog: prog, pkgs: pkgs,
		infos:      map[*ssa.Function]*fnInfo{},
		stdGlobals: map[*ssa.Global]*value{},
		cov:        &Coverage{Funcs: map[string]int{}, Externals: map[string]int{}},
		rng:        rand.New(rand.NewSource(1)),
		implCache:  map[[2]types.Type]bool{},
		repoDir:    repoDir, verifDir: verifDir, overlay: ov,
	}
	p.externals = buildExternals()
	rt := prog.ImportedPackage("runtime")
	if rt == nil {
		return nil, fmt.Errorf("runtime package not loaded")
	}
	p.rtErrorString = rt.Type("errorString").Type()
	p.rtBoundsError = rt.Type("boundsError").Type()
	p.rtPlainError = rt.Type("plainError").Type()
	p.rtTypeAssertionErrorPtr = types.NewPointer(rt.Type("TypeAssertionError").Type())
	p.rtErrorIface = rt.Type("Error").Type().Underlying().(*types.Interface)
	if ep := prog.ImportedPackage("errors"); ep != nil {
		p.errorsErrorStringPtr = types.NewPointer(ep.Type("errorString").Type())
	}
	for _, pkg := range prog.AllPackages() {
		if !isStdPkg(pkg.Pkg) {
			continue
		}
		for _, m := range pkg.Members {
			if g, ok := m.(*ssa.Global); ok {
				cell := zero(deref(g.Type()))
				p.stdGlobals[g] = &cell
			}
		}
	}
	return p, nil
}

func (p *Program) implements(t types.Type, it *types.Interface) bool {
	k := [2]types.Type{t, it}
	p.implMu.Lock()
	r, ok := p.implCache[k]
	p.implMu.Unlock()
	if ok {
		return r
	}
	r = types.Implements(t, it)
	p.implMu.Lock()
	p.implCache[k] = r
	p.implMu.Unlock()
	return r
}

func (p *Program) isRuntimeError(t types.Type) bool {
	return p.implements(t, p.rtErrorIface)
}

func (ex *Exec) globalAddr(g *ssa.Global) *value {
	if a, ok := ex.prog.stdGlobals[g]; ok {
		return a
	}
	if a, ok := ex.globals[g]; ok {
		return a
	}
	cell := zero(deref(g.Type()))
	a := &cell
	ex.globals[g] = a
	return a
}

// std packages whose package initialisers are executed (once, shared).
var stdInitAllow = map[string]bool{
	"io": true, "strings": true, "bytes": true, "strconv": true, "unicode": true,
	"unicode/utf8": true, "unicode/utf16": true, "sort": true, "slices": true,
	"cmp": true, "internal/itoa": true, "internal/stringslite": true, "math/bits": true,
}

// initStd runs the allow-listed std initialisers once, into the shared globals.
func (p *Program) initStd() []string {
	var warnings []string
	sol := &Solver{} // never used: std inits are concrete
	_ = sol
	for _, pkg := range p.prog.AllPackages() {
		if !isStdPkg(pkg.Pkg) || !stdInitAllow[pkg.Pkg.Path()] {
			continue
		}
		func() {
			ex := p.newBareExec()
			defer func() {
				if r := recover(); r != nil {
					warnings = append(warnings, fmt.Sprintf("init of %s: %v", pkg.Pkg.Path(), describeAbort(r)))
				}
			}()
			ex.sharedInit = true
			ex.callSSA(nil, 0, pkg.Func("init"), nil, nil)
		}()
	}
	return warnings
}

func describeAbort(r interface{}) string {
	switch r := r.(type) {
	case pathAbort:
		return r.msg
	case targetPanic:
		return "target panic"
	}
	return fmt.Sprint(r)
}

func (p *Program) newBareExec() *Exec {
	return &Exec{
		prog: p, tc: NewTermCtx(),
		globals:     map[*ssa.Global]*value{},
		stepBudget:  1 << 40,
		depthBudget: 5000,
		truthCache:  map[*Term]bool{},
		varSeq:      map[string]int{},
		pools:       map[*value][]value{},
		syncMaps:    map[*value]*syncMapModel{},
		fnSeen:      map[*ssa.Function]bool{},
		extSeen:     map[string]bool{},
		uninterp:    map[string]*Term{},
		bindings:    map[*Term]*Term{},
		cfg:         &RunConfig{KnownActive: map[string]bool{}},
	}
}

// initPackages runs the package initialiser of the harness package; std
// initialisers are skipped (done once by initStd) via callSSA's check.
func (ex *Exec) initPackages(pkg *ssa.Package) {
	ex.inInit = true
	ex.callSSA(nil, 0, pkg.Func("init"), nil, nil)
	ex.inInit = false
}

// skipInit reports whether a package initialiser must not be executed now.
func (ex *Exec) skipInit(fn *ssa.Function) bool {
	if fn.Pkg == nil || fn.Name() != "init" || fn.Synthetic == "" || fn.Parent() != nil {
		return false
	}
	if isStdPkg(fn.Pkg.Pkg) {
		return !(ex.sharedInit && stdInitAllow[fn.Pkg.Pkg.Path()])
	}
	return false
}

// harnessFuncs returns the harness entry points for a property, sorted.
func (p *Program) harnessFuncs(prop string) []*ssa.Function {
	var out []*ssa.Function
	prefix := "Verif" + prop + "_"
	for _, pkg := range p.prog.AllPackages() {
		if isStdPkg(pkg.Pkg) {
			continue
		}
		for name, m := range pkg.Members {
			if f, ok := m.(*ssa.Function); ok && strings.HasPrefix(name, prefix) {
				out = append(out, f)
			}
		}
	}
	sort.Slice(out, func(i, j int) bool { return out[i].String() < out[j].String() })
	return out
}

func (p *Program) noteExpect(h, label string) {
	p.expectMu.Lock()
	if p.expects == nil {
		p.expects = map[string]map[string]bool{}
	}
	if p.expects[h] == nil {
		p.expects[h] = map[string]bool{}
	}
	p.expects[h][label] = true
	p.expectMu.Unlock()
}

func (p *Program) noteBound(name string, v int64) {
	p.expectMu.Lock()
	if p.bounds == nil {
		p.bounds = map[string]int64{}
	}
	p.bounds[name] = v
	p.expectMu.Unlock()
}
