package main

// Exact term-level model of unicode/utf8.DecodeRune / DecodeRuneInString on
// symbolic bytes (no forking): a nested ite over the first <= 4 bytes that
// follows the standard library's algorithm (first[] classes, acceptRanges).

import (
	"unicode/utf8"
)

func (ex *Exec) decodeRuneModel(p []value) (value, value) {
	n := len(p)
	if n == 0 {
		return I(uint64(uint32(utf8.RuneError))), I(0)
	}
	// concrete fast path: the bytes the real function would look at
	k := n
	if k > 4 {
		k = 4
	}
	allc := true
	buf := make([]byte, 0, 4)
	for i := 0; i < k; i++ {
		c, ok := p[i].(I)
		if !ok {
			allc = false
			break
		}
		buf = append(buf, byte(c))
	}
	if allc {
		r, sz := utf8.DecodeRune(buf)
		return I(uint64(uint32(r))), I(uint64(sz))
	}
	if c, ok := p[0].(I); ok && c < 0x80 {
		return I(uint64(c)), I(1)
	}
	tc := ex.tc
	b := func(i int) *Term { return ex.toTerm(p[i], 8) }
	in := func(x *Term, lo, hi uint64) *Term {
		return tc.And(tc.BVCmp(OpBVUle, tc.BV(lo, 8), x), tc.BVCmp(OpBVUle, x, tc.BV(hi, 8)))
	}
	z := func(x *Term, m uint64) *Term { return tc.ZeroExt(tc.BVBin(OpBVAnd, x, tc.BV(m, 8)), 32) }
	shl := func(x *Term, k uint64) *Term { return tc.BVBin(OpBVShl, x, tc.BV(k, 32)) }
	or := func(a, c *Term) *Term { return tc.BVBin(OpBVOr, a, c) }
	p0 := b(0)
	isASCII := tc.BVCmp(OpBVUlt, p0, tc.BV(0x80, 8))
	two := in(p0, 0xC2, 0xDF)
	three := in(p0, 0xE0, 0xEF)
	four := in(p0, 0xF0, 0xF4)
	lo := tc.Ite(tc.Eq(p0, tc.BV(0xE0, 8)), tc.BV(0xA0, 8), tc.Ite(tc.Eq(p0, tc.BV(0xF0, 8)), tc.BV(0x90, 8), tc.BV(0x80, 8)))
	hi := tc.Ite(tc.Eq(p0, tc.BV(0xED, 8)), tc.BV(0x9F, 8), tc.Ite(tc.Eq(p0, tc.BV(0xF4, 8)), tc.BV(0x8F, 8), tc.BV(0xBF, 8)))
	valid2, valid3, valid4 := tc.ff, tc.ff, tc.ff
	r2, r3, r4 := tc.BV(0, 32), tc.BV(0, 32), tc.BV(0, 32)
	if n >= 2 {
		b1 := b(1)
		b1ok := tc.And(tc.BVCmp(OpBVUle, lo, b1), tc.BVCmp(OpBVUle, b1, hi))
		valid2 = tc.And(two, b1ok)
		r2 = or(shl(z(p0, 0x1F), 6), z(b1, 0x3F))
		if n >= 3 {
			b2 := b(2)
			b2ok := in(b2, 0x80, 0xBF)
			valid3 = tc.And(three, tc.And(b1ok, b2ok))
			r3 = or(or(shl(z(p0, 0x0F), 12), shl(z(b1, 0x3F), 6)), z(b2, 0x3F))
			if n >= 4 {
				b3 := b(3)
				b3ok := in(b3, 0x80, 0xBF)
				valid4 = tc.And(four, tc.And(b1ok, tc.And(b2ok, b3ok)))
				r4 = or(or(or(shl(z(p0, 0x07), 18), shl(z(b1, 0x3F), 12)), shl(z(b2, 0x3F), 6)), z(b3, 0x3F))
			}
		}
	}
	rerr := tc.BV(uint64(utf8.RuneError), 32)
	r := tc.Ite(isASCII, tc.ZeroExt(p0, 32), tc.Ite(valid2, r2, tc.Ite(valid3, r3, tc.Ite(valid4, r4, rerr))))
	sz := tc.Ite(isASCII, tc.BV(1, 64), tc.Ite(valid2, tc.BV(2, 64), tc.Ite(valid3, tc.BV(3, 64), tc.Ite(valid4, tc.BV(4, 64), tc.BV(1, 64)))))
	return fromTerm(r), fromTerm(sz)
}

// selftestUTF8 compares the model with the real function on all 1- and 2-byte
// inputs and a grid of 3- and 4-byte inputs.
func selftestUTF8() (int, string) {
	ex := &Exec{tc: NewTermCtx()}
	tc := ex.tc
	vars := []*Term{tc.Var("v0", bv(8)), tc.Var("v1", bv(8)), tc.Var("v2", bv(8)), tc.Var("v3", bv(8))}
	count := 0
	for n := 1; n <= 4; n++ {
		p := make([]value, n)
		for i := range p {
			p[i] = vars[i]
		}
		rv, sv := ex.decodeRuneModel(p)
		rt, st := ex.toTerm(rv, 32), ex.toTerm(sv, 64)
		interesting := []int{0x00, 0x41, 0x7f, 0x80, 0x8f, 0x90, 0x9f, 0xa0, 0xbf, 0xc0, 0xc1, 0xc2, 0xdf, 0xe0, 0xe1, 0xec, 0xed, 0xee, 0xef, 0xf0, 0xf1, 0xf3, 0xf4, 0xf5, 0xff}
		var rec func(i int, buf []byte)
		bad := ""
		rec = func(i int, buf []byte) {
			if bad != "" {
				return
			}
			if i == n {
				env := map[string]uint64{}
				for k, c := range buf {
					env[vars[k].Name] = uint64(c)
				}
				memo := map[*Term]*bigInt{}
				gr := evalTerm(rt, env, memo).Uint64()
				gs := evalTerm(st, env, memo).Uint64()
				wr, ws := utf8.DecodeRune(buf)
				count++
				if gr != uint64(uint32(wr)) || gs != uint64(ws) {
					bad = "utf8 model mismatch"
				}
				return
			}
			if n <= 2 {
				for c := 0; c < 256; c++ {
					rec(i+1, append(buf, byte(c)))
				}
			} else {
				for _, c := range interesting {
					rec(i+1, append(buf, byte(c)))
				}
			}
		}
		rec(0, nil)
		if bad != "" {
			return count, bad
		}
	}
	return count, ""
}
