package main

// Intrinsics (zzverif.*), models of body-less std functions, and host calls.

import (
	"fmt"
	"go/types"
	"math"
	"math/big"
	"strconv"
	"strings"
)

const zz = repoModule + "/zzverif."

type harnessPolicy struct {
	allowPanic       bool
	boundIsViolation bool
}

func concreteString(v value) (string, bool) {
	s, ok := v.(string)
	return s, ok
}

func mustConcreteString(v value, what string) string {
	s, ok := v.(string)
	if !ok {
		panic(pathAbort{abEngine, what + ": expected a concrete string"})
	}
	return s
}

func (ex *Exec) freshVar(name string, s Sort) *Term {
	k := ex.varSeq[name]
	ex.varSeq[name]++
	if k > 0 {
		name = name + "#" + strconv.Itoa(k)
	}
	return ex.freshVarExact(name, s)
}

func (ex *Exec) freshVarExact(name string, s Sort) *Term {
	t := ex.tc.Var("v"+strconv.Itoa(len(ex.tc.vars)), s)
	ex.varNames = append(ex.varNames, name)
	return t
}

func (ex *Exec) event(s string) { ex.events = append(ex.events, s) }

func intvOf(v value) *IntV {
	s := v.(structure)
	if p, ok := s[0].(*IntV); ok && p != nil {
		return p
	}
	return &IntV{c: new(big.Int)}
}

func (ex *Exec) intvTerm(a *IntV) *Term {
	if a.t != nil {
		return a.t
	}
	return ex.tc.IntConst(a.c)
}

func mkIntV(t *Term) value {
	if t.IsConst() {
		return structure{&IntV{c: t.Big}}
	}
	return structure{&IntV{t: t}}
}

func (ex *Exec) assume(c value) {
	switch c := c.(type) {
	case bool:
		if !c {
			panic(pathAbort{abInfeasible, "assume(false)"})
		}
	case *Term:
		if b, ok := ex.truthCache[c]; ok {
			if !b {
				panic(pathAbort{abInfeasible, "assume contradicts path"})
			}
			return
		}
		if ex.pos < len(ex.prefix) {
			// replaying: the prefix was feasible with this assumption
			ex.assertPC(c)
			return
		}
		r := ex.sol.Check(ex.tc, c)
		if r == RUnsat {
			panic(pathAbort{abInfeasible, "assume infeasible"})
		}
		ex.assertPC(c)
	}
}

// assertObligation implements zzverif.Assert.
func (ex *Exec) assertObligation(c value, label string) {
	ex.obligations++
	tc := ex.tc
	var ct *Term
	switch c := c.(type) {
	case bool:
		if c {
			return
		}
		ct = tc.ff
	case *Term:
		ct = c
		if b, ok := ex.truthCache[c]; ok && b {
			return
		}
	}
	if ex.pos < len(ex.prefix) {
		// The obligation was already decided when this prefix was first run
		// (the path that discovered it reported it); keep the surviving side.
		if !ct.IsConst() {
			ex.assertPC(ct)
			return
		}
	}
	neg := tc.Not(ct)
	notKnown := tc.tt
	var names []string
	for _, k := range ex.knownPreds {
		if !ex.cfg.KnownActive[k.name] {
			continue
		}
		notKnown = tc.And(notKnown, tc.Not(ex.toTerm(k.cond, 0)))
		names = append(names, k.name)
	}
	ex.sol.send("(push 1)\n")
	ex.sol.Assert(tc, neg)
	r := ex.sol.CheckSat()
	if r == RUnsat {
		ex.sol.send("(pop 1)\n")
		ex.discharged++
		if !ct.IsConst() {
			ex.noteTrue(ct)
		}
		return
	}
	if r == RUnknown {
		ex.sol.send("(pop 1)\n")
		ex.viol = append(ex.viol, Violation{Harness: ex.harness.Name(), Label: label, Kind: "unknown", Detail: "solver answered unknown on assertion"})
		ex.afterViolation(ct)
		return
	}
	// falsifiable. Outside the known findings?
	if len(names) > 0 {
		ex.sol.Assert(tc, notKnown)
		r2 := ex.sol.CheckSat()
		if r2 == RUnsat {
			ex.sol.send("(pop 1)\n")
			ex.knownHits = append(ex.knownHits, strings.Join(names, "|")+": "+label)
			ex.afterViolation(ct)
			return
		}
		if r2 == RUnknown {
			ex.sol.send("(pop 1)\n")
			ex.viol = append(ex.viol, Violation{Harness: ex.harness.Name(), Label: label, Kind: "unknown", Detail: "solver answered unknown on assertion (known-finding split)"})
			ex.afterViolation(ct)
			return
		}
		// also note whether the known part is hit (informational)
	}
	m, err := ex.sol.Model(tc)
	ex.sol.send("(pop 1)\n")
	v := Violation{Harness: ex.harness.Name(), Label: label, Kind: "assert"}
	if err == nil {
		v.Inputs = ex.nameInputs(m)
		evs := append([]string{}, ex.events...)
		for _, o := range ex.obsTerms {
			var parts []string
			for _, x := range o.vals {
				parts = append(parts, ex.renderUnder(x, m))
			}
			evs[o.idx] += strings.Join(parts, ",")
		}
		v.Events = append(evs, "assert-fail:"+label)
	} else {
		v.Detail = "model error: " + err.Error()
	}
	ex.viol = append(ex.viol, v)
	ex.afterViolation(ct)
}

// afterViolation continues the path on the side where the assertion holds.
func (ex *Exec) afterViolation(ct *Term) {
	if ct.IsConst() {
		panic(pathAbort{abStop, "assertion failed concretely"})
	}
	if ex.sol.Check(ex.tc, ct) != RSat {
		panic(pathAbort{abStop, "assertion cannot hold on this path"})
	}
	ex.assertPC(ct)
}

func argBool(v value) value { return v }

func buildExternals() map[string]extFn {
	m := map[string]extFn{}

	// ---------------- zzverif ----------------
	m[zz+"Byte"] = func(ex *Exec, fr *frame, a []value) value {
		return ex.freshVar(mustConcreteString(a[0], "Byte name"), bv(8))
	}
	m[zz+"Bytes"] = func(ex *Exec, fr *frame, a []value) value {
		name := mustConcreteString(a[0], "Bytes name")
		k := ex.varSeq[name]
		ex.varSeq[name]++
		if k > 0 {
			name = name + "#" + strconv.Itoa(k)
		}
		n := int(ex.concreteInt(a[1], "Bytes n"))
		out := make([]value, n)
		for i := range out {
			out[i] = ex.freshVarExact(name+"["+strconv.Itoa(i)+"]", bv(8))
		}
		return out
	}
	m[zz+"Bool"] = func(ex *Exec, fr *frame, a []value) value {
		return ex.freshVar(mustConcreteString(a[0], "Bool name"), sortBool)
	}
	m[zz+"U64"] = func(ex *Exec, fr *frame, a []value) value {
		return ex.freshVar(mustConcreteString(a[0], "U64 name"), bv(64))
	}
	m[zz+"IntRange"] = func(ex *Exec, fr *frame, a []value) value {
		v := ex.freshVar(mustConcreteString(a[0], "IntRange name"), bv(64))
		lo, hi := int64(ex.concreteInt(a[1], "lo")), int64(ex.concreteInt(a[2], "hi"))
		tc := ex.tc
		ex.assume(fromTerm(tc.And(tc.BVCmp(OpBVSle, tc.BV(uint64(lo), 64), v), tc.BVCmp(OpBVSle, v, tc.BV(uint64(hi), 64)))))
		return I(ex.concretize(v))
	}
	m[zz+"OneOf"] = func(ex *Exec, fr *frame, a []value) value {
		v := ex.freshVar(mustConcreteString(a[0], "OneOf name"), bv(8))
		alpha := mustConcreteString(a[1], "OneOf alphabet")
		tc := ex.tc
		c := tc.ff
		for i := 0; i < len(alpha); i++ {
			c = tc.Or(c, tc.Eq(v, tc.BV(uint64(alpha[i]), 8)))
		}
		ex.assume(fromTerm(c))
		return v
	}
	m[zz+"Digit"] = func(ex *Exec, fr *frame, a []value) value {
		v := ex.freshVar(mustConcreteString(a[0], "Digit name"), bv(8))
		tc := ex.tc
		ex.assume(fromTerm(tc.And(tc.BVCmp(OpBVUle, tc.BV('0', 8), v), tc.BVCmp(OpBVUle, v, tc.BV('9', 8)))))
		return v
	}
	m[zz+"Assume"] = func(ex *Exec, fr *frame, a []value) value {
		ex.assume(a[0])
		return nil
	}
	m[zz+"Assert"] = func(ex *Exec, fr *frame, a []value) value {
		ex.assertObligation(a[0], mustConcreteString(a[1], "Assert label"))
		return nil
	}
	m[zz+"Known"] = func(ex *Exec, fr *frame, a []value) value {
		ex.knownPreds = append(ex.knownPreds, knownPred{mustConcreteString(a[0], "Known name"), a[1]})
		return nil
	}
	m[zz+"Same"] = func(ex *Exec, fr *frame, a []value) value {
		x, y := a[0].(iface), a[1].(iface)
		if x.t == nil || y.t == nil {
			return x.t == nil && y.t == nil
		}
		if !types.Identical(x.t, y.t) {
			return false
		}
		return ex.deepEq(x.t, x.v, y.v, 0)
	}
	m[zz+"Reach"] = func(ex *Exec, fr *frame, a []value) value {
		ex.event("reach:" + mustConcreteString(a[0], "Reach label"))
		return nil
	}
	m[zz+"Expect"] = func(ex *Exec, fr *frame, a []value) value {
		for _, l := range a[0].([]value) {
			ex.prog.noteExpect(ex.harness.Name(), mustConcreteString(l, "Expect label"))
		}
		return nil
	}
	m[zz+"Observe"] = func(ex *Exec, fr *frame, a []value) value {
		label := mustConcreteString(a[0], "Observe label")
		var vals []value
		for _, x := range a[1].([]value) {
			i := x.(iface)
			v := i.v
			// normalise signed concrete ints to their bit pattern (already so)
			vals = append(vals, v)
		}
		ex.event("observe:" + label + "=")
		ex.obsTerms = append(ex.obsTerms, obsItem{idx: len(ex.events) - 1, vals: vals})
		return nil
	}
	m[zz+"Bound"] = func(ex *Exec, fr *frame, a []value) value {
		name := mustConcreteString(a[0], "Bound name")
		q, t := a[1].(I), a[2].(I)
		v := q
		if ex.tier == "thorough" {
			v = t
		}
		ex.prog.noteBound(ex.harness.Name()+"."+name, int64(v))
		return v
	}
	m[zz+"SetMapOrder"] = func(ex *Exec, fr *frame, a []value) value {
		ex.mapOrder = int(a[0].(I))
		return nil
	}
	m[zz+"SetPoolMode"] = func(ex *Exec, fr *frame, a []value) value {
		ex.poolMode = int(a[0].(I))
		return nil
	}
	m[zz+"BoundIsViolation"] = func(ex *Exec, fr *frame, a []value) value {
		ex.policy.boundIsViolation = true
		return nil
	}
	m[zz+"StubJSONValues"] = func(ex *Exec, fr *frame, a []value) value {
		ex.stubJSON = true
		return nil
	}
	m[zz+"Opaque"] = func(ex *Exec, fr *frame, a []value) value {
		_, ok := a[0].(*Opaque)
		return ok
	}
	m[zz+"RunReplay"] = func(ex *Exec, fr *frame, a []value) value { return nil }

	// Int oracle
	m[zz+"IntConst"] = func(ex *Exec, fr *frame, a []value) value {
		return structure{&IntV{c: big.NewInt(int64(a[0].(I)))}}
	}
	m[zz+"IntOfUint"] = func(ex *Exec, fr *frame, a []value) value {
		switch x := a[0].(type) {
		case I:
			return structure{&IntV{c: new(big.Int).SetUint64(uint64(x))}}
		case *Term:
			return mkIntV(ex.tc.BV2Nat(x))
		}
		panic(unsupported("IntOfUint"))
	}
	m[zz+"IntOfDigits"] = func(ex *Exec, fr *frame, a []value) value {
		tc := ex.tc
		bs := a[0].([]value)
		// concrete digits are folded with Horner into one constant; only
		// symbolic digits become terms (10^pos * bv2nat(d - '0'))
		cst := new(big.Int)
		ten := big.NewInt(10)
		type symd struct {
			pos int
			t   *Term
		}
		var syms []symd
		for i, b := range bs {
			cst.Mul(cst, ten)
			switch b := b.(type) {
			case I:
				cst.Add(cst, big.NewInt(int64(b)-'0'))
			case *Term:
				syms = append(syms, symd{len(bs) - 1 - i, tc.BV2Nat(tc.BVBin(OpBVSub, b, tc.BV('0', 8)))})
			}
		}
		acc := tc.IntConst(cst)
		for _, s := range syms {
			p := new(big.Int).Exp(ten, big.NewInt(int64(s.pos)), nil)
			acc = tc.IntBin(OpIntAdd, acc, tc.IntBin(OpIntMul, tc.IntConst(p), s.t))
		}
		return mkIntV(acc)
	}
	intBin := func(op Op) extFn {
		return func(ex *Exec, fr *frame, a []value) value {
			x, y := intvOf(a[0]), intvOf(a[1])
			return mkIntV(ex.tc.IntBin(op, ex.intvTerm(x), ex.intvTerm(y)))
		}
	}
	m["("+zz+"Int).Add"] = intBin(OpIntAdd)
	m["("+zz+"Int).Sub"] = intBin(OpIntSub)
	m["("+zz+"Int).Mul"] = intBin(OpIntMul)
	m["("+zz+"Int).Neg"] = func(ex *Exec, fr *frame, a []value) value {
		return mkIntV(ex.tc.IntNeg(ex.intvTerm(intvOf(a[0]))))
	}
	m["("+zz+"Int).MulPow10"] = func(ex *Exec, fr *frame, a []value) value {
		k := int64(ex.concreteInt(a[1], "MulPow10 k"))
		p := new(big.Int).Exp(big.NewInt(10), big.NewInt(k), nil)
		return mkIntV(ex.tc.IntBin(OpIntMul, ex.tc.IntConst(p), ex.intvTerm(intvOf(a[0]))))
	}
	m["("+zz+"Int).Lt"] = func(ex *Exec, fr *frame, a []value) value {
		return fromTerm(ex.tc.IntCmp(OpIntLt, ex.intvTerm(intvOf(a[0])), ex.intvTerm(intvOf(a[1]))))
	}
	m["("+zz+"Int).Le"] = func(ex *Exec, fr *frame, a []value) value {
		return fromTerm(ex.tc.IntCmp(OpIntLe, ex.intvTerm(intvOf(a[0])), ex.intvTerm(intvOf(a[1]))))
	}
	m["("+zz+"Int).Eq"] = func(ex *Exec, fr *frame, a []value) value {
		return fromTerm(ex.tc.Eq(ex.intvTerm(intvOf(a[0])), ex.intvTerm(intvOf(a[1]))))
	}

	// ---------------- runtime error values ----------------
	m["(runtime.boundsError).Error"] = func(ex *Exec, fr *frame, a []value) value {
		return "runtime error: index out of range"
	}
	m["(runtime.boundsError).RuntimeError"] = func(ex *Exec, fr *frame, a []value) value { return nil }
	m["(runtime.errorString).Error"] = func(ex *Exec, fr *frame, a []value) value {
		return "runtime error: " + a[0].(string)
	}
	m["(runtime.errorString).RuntimeError"] = func(ex *Exec, fr *frame, a []value) value { return nil }
	m["(runtime.plainError).Error"] = func(ex *Exec, fr *frame, a []value) value { return a[0] }
	m["(runtime.plainError).RuntimeError"] = func(ex *Exec, fr *frame, a []value) value { return nil }
	m["(*runtime.TypeAssertionError).Error"] = func(ex *Exec, fr *frame, a []value) value {
		return "interface conversion: type assertion failed"
	}
	m["(*runtime.TypeAssertionError).RuntimeError"] = func(ex *Exec, fr *frame, a []value) value { return nil }

	// ---------------- internal/bytealg & friends ----------------
	indexByte := func(ex *Exec, bs []value, c value) value {
		for i, b := range bs {
			if ex.truth(fromTerm(ex.byteEq(b, c))) {
				return I(uint64(i))
			}
		}
		return I(^uint64(0))
	}
	m["internal/bytealg.IndexByte"] = func(ex *Exec, fr *frame, a []value) value {
		return indexByte(ex, a[0].([]value), a[1])
	}
	m["internal/bytealg.IndexByteString"] = func(ex *Exec, fr *frame, a []value) value {
		return indexByte(ex, strBytes(a[0]), a[1])
	}
	lastIndexByte := func(ex *Exec, bs []value, c value) value {
		for i := len(bs) - 1; i >= 0; i-- {
			if ex.truth(fromTerm(ex.byteEq(bs[i], c))) {
				return I(uint64(i))
			}
		}
		return I(^uint64(0))
	}
	m["internal/bytealg.LastIndexByte"] = func(ex *Exec, fr *frame, a []value) value {
		return lastIndexByte(ex, a[0].([]value), a[1])
	}
	m["internal/bytealg.LastIndexByteString"] = func(ex *Exec, fr *frame, a []value) value {
		return lastIndexByte(ex, strBytes(a[0]), a[1])
	}
	count := func(ex *Exec, bs []value, c value) value {
		// sum of ite terms (no forking)
		tc := ex.tc
		acc := tc.BV(0, 64)
		for _, b := range bs {
			acc = tc.BVBin(OpBVAdd, acc, tc.Ite(ex.byteEq(b, c), tc.BV(1, 64), tc.BV(0, 64)))
		}
		return fromTerm(acc)
	}
	m["internal/bytealg.Count"] = func(ex *Exec, fr *frame, a []value) value {
		return count(ex, a[0].([]value), a[1])
	}
	m["internal/bytealg.CountString"] = func(ex *Exec, fr *frame, a []value) value {
		return count(ex, strBytes(a[0]), a[1])
	}
	m["internal/bytealg.Equal"] = func(ex *Exec, fr *frame, a []value) value {
		return ex.stringBinop(tokEQL, mkString(a[0].([]value)), mkString(a[1].([]value)))
	}
	m["internal/bytealg.MakeNoZero"] = func(ex *Exec, fr *frame, a []value) value {
		n := int(ex.concreteInt(a[0], "MakeNoZero"))
		if n < 0 || n > 1<<24 {
			ex.panicRuntime("makeslice: len out of range")
		}
		s := make([]value, n)
		for i := range s {
			s[i] = I(0)
		}
		return s
	}
	compare := func(ex *Exec, x, y []value) value {
		n := len(x)
		if len(y) < n {
			n = len(y)
		}
		for i := 0; i < n; i++ {
			if ex.truth(fromTerm(ex.byteEq(x[i], y[i]))) {
				continue
			}
			lt := ex.tc.BVCmp(OpBVUlt, ex.toTerm(x[i], 8), ex.toTerm(y[i], 8))
			if ex.truth(fromTerm(lt)) {
				return I(^uint64(0))
			}
			return I(1)
		}
		switch {
		case len(x) < len(y):
			return I(^uint64(0))
		case len(x) > len(y):
			return I(1)
		}
		return I(0)
	}
	m["internal/bytealg.Compare"] = func(ex *Exec, fr *frame, a []value) value {
		return compare(ex, a[0].([]value), a[1].([]value))
	}
	m["internal/bytealg.CompareString"] = func(ex *Exec, fr *frame, a []value) value {
		return compare(ex, strBytes(a[0]), strBytes(a[1]))
	}
	m["bytes.Compare"] = m["internal/bytealg.Compare"]
	m["strings.Compare"] = m["internal/bytealg.CompareString"]
	index := func(ex *Exec, hay, needle []value) value {
		n := len(needle)
		for i := 0; i+n <= len(hay); i++ {
			eq := ex.stringBinop(tokEQL, mkString(hay[i:i+n]), mkString(needle))
			if ex.truth(eq) {
				return I(uint64(i))
			}
		}
		return I(^uint64(0))
	}
	m["internal/bytealg.Index"] = func(ex *Exec, fr *frame, a []value) value {
		return index(ex, a[0].([]value), a[1].([]value))
	}
	m["internal/bytealg.IndexString"] = func(ex *Exec, fr *frame, a []value) value {
		return index(ex, strBytes(a[0]), strBytes(a[1]))
	}
	// strings.Index / bytes.Index use CPU-dependent thresholds; model them directly.
	m["strings.Index"] = m["internal/bytealg.IndexString"]
	m["bytes.Index"] = m["internal/bytealg.Index"]
	m["internal/stringslite.Index"] = m["internal/bytealg.IndexString"]

	m["(*strings.Builder).copyCheck"] = func(ex *Exec, fr *frame, a []value) value { return nil }
	m["internal/abi.NoEscape"] = func(ex *Exec, fr *frame, a []value) value { return a[0] }
	m["internal/abi.Escape"] = func(ex *Exec, fr *frame, a []value) value { return a[0] }
	m["strings.Clone"] = func(ex *Exec, fr *frame, a []value) value { return a[0] }
	m["internal/stringslite.Clone"] = func(ex *Exec, fr *frame, a []value) value { return a[0] }
	m["internal/race.Enabled"] = func(ex *Exec, fr *frame, a []value) value { return false }

	m["unicode/utf8.DecodeRune"] = func(ex *Exec, fr *frame, a []value) value {
		r, sz := ex.decodeRuneModel(a[0].([]value))
		return tuple{r, sz}
	}
	m["unicode/utf8.DecodeRuneInString"] = func(ex *Exec, fr *frame, a []value) value {
		r, sz := ex.decodeRuneModel(strBytes(a[0]))
		return tuple{r, sz}
	}
	// errors.Is: == on comparable errors, Is methods and Unwrap() error chains
	m["errors.Is"] = func(ex *Exec, fr *frame, a []value) value {
		err, target := a[0].(iface), a[1].(iface)
		if err.t == nil || target.t == nil {
			return err.t == nil && target.t == nil
		}
		for depth := 0; depth < 64; depth++ {
			if types.Comparable(target.t) && types.Identical(err.t, target.t) {
				if ex.truth(ex.equals(err.t, err.v, target.v)) {
					return true
				}
			}
			if r, ok := ex.callMethod(fr, err, "Is", []value{target}); ok {
				if ex.truth(r) {
					return true
				}
			}
			u, ok := ex.callMethod(fr, err, "Unwrap", nil)
			if !ok {
				return false
			}
			ui, isI := u.(iface)
			if !isI || ui.t == nil {
				return false
			}
			err = ui
		}
		return false
	}
	// diagnostics quote the offending byte; on a symbolic byte the text is opaque
	m[repoModule+"/bytes.QuoteChar"] = func(ex *Exec, fr *frame, a []value) value {
		if _, sym := a[0].(*Term); sym {
			return &Opaque{why: "bytes.QuoteChar of symbolic byte"}
		}
		return declined{}
	}
	addSync(m)
	addHost(m)
	return m
}

var _ = types.Universe
var _ = math.Pi
var _ = fmt.Sprint
