package main

import (
	"fmt"
	"go/token"
	"go/types"
	"math"
	"unicode/utf8"
	"unsafe"

	"golang.org/x/tools/go/ssa"
)

// symRef is the address of elems[idx] (then following path through struct
// fields) for a symbolic idx that is known to be in bounds.
type symRef struct {
	elems []value
	idx   *Term
	path  []int
	w     int // bit width of the referenced scalar (0: bool or aggregate)
}

func (ex *Exec) symIndexAddr(elems []value, idx *Term, signed bool, w int) value {
	tc := ex.tc
	n := len(elems)
	if signed {
		idx = tc.SignExt(idx, 64)
	} else {
		idx = tc.ZeroExt(idx, 64)
	}
	inb := tc.BVCmp(OpBVUlt, idx, tc.BV(uint64(n), 64))
	if !ex.branchT(inb) {
		ex.panicBounds(I(0), n, 0)
	}
	if n == 1 {
		return &elems[0]
	}
	return &symRef{elems: elems, idx: idx, w: w}
}

func follow(v value, path []int) value {
	for _, f := range path {
		v = v.(structure)[f]
	}
	return v
}

// loadRef reads through a symbolic reference: an ite-chain over the elements
// when they are scalars, otherwise the index is concretised by forking.
func (ex *Exec) loadRef(r *symRef) value {
	tc := ex.tc
	scalar := true
	for _, e := range r.elems {
		switch follow(e, r.path).(type) {
		case I, *Term, bool:
		default:
			scalar = false
		}
		if !scalar {
			break
		}
	}
	if !scalar || len(r.elems) > 1024 {
		p := ex.concretizeRef(r)
		return load(p)
	}
	w := r.w
	toTerm := func(v value) *Term {
		switch v := v.(type) {
		case *Term:
			return v
		case bool:
			return tc.Bool(v)
		case I:
			if w == 0 {
				panic(pathAbort{abEngine, "loadRef: integer element with unknown width"})
			}
			return tc.BV(uint64(v), w)
		}
		panic("loadRef")
	}
	res := toTerm(follow(r.elems[len(r.elems)-1], r.path))
	for i := len(r.elems) - 2; i >= 0; i-- {
		v := toTerm(follow(r.elems[i], r.path))
		if v == res {
			continue
		}
		res = tc.Ite(tc.Eq(r.idx, tc.BV(uint64(i), r.idx.S.W)), v, res)
	}
	return fromTerm(res)
}

func (ex *Exec) concretizeRef(r *symRef) *value {
	i := ex.concretize(r.idx)
	p := &r.elems[int(i)]
	for _, f := range r.path {
		p = &(*p).(structure)[f]
	}
	return p
}

// ---- unary ----

func (ex *Exec) unop(instr *ssa.UnOp, x value) value {
	tc := ex.tc
	switch instr.Op {
	case token.MUL: // load
		switch p := x.(type) {
		case *value:
			if p == nil {
				ex.panicRuntime("invalid memory address or nil pointer dereference")
			}
			return load(p)
		case *symRef:
			return ex.loadRef(p)
		}
		panic(unsupported(fmt.Sprintf("load through %T", x)))
	case token.NOT:
		switch x := x.(type) {
		case bool:
			return !x
		case *Term:
			return tc.Not(x)
		}
	case token.SUB:
		switch x := x.(type) {
		case I:
			w, _, _ := intInfo(instr.Type())
			return I(-uint64(x) & mask(w))
		case *Term:
			return tc.BVUn(OpBVNeg, x)
		case float64:
			return -x
		case float32:
			return -x
		}
	case token.XOR:
		switch x := x.(type) {
		case I:
			w, _, _ := intInfo(instr.Type())
			return I(^uint64(x) & mask(w))
		case *Term:
			return tc.BVUn(OpBVNot, x)
		}
	case token.ARROW:
		panic(unsupported("channel receive"))
	}
	panic(unsupported(fmt.Sprintf("unop %s on %T", instr.Op, x)))
}

// ---- integer helpers ----

func (ex *Exec) toTerm(v value, w int) *Term {
	switch v := v.(type) {
	case *Term:
		if ex.boundMask != 0 || ex.boundBig {
			return ex.subst(v)
		}
		return v
	case I:
		return ex.tc.BV(uint64(v), w)
	case bool:
		return ex.tc.Bool(v)
	}
	panic(pathAbort{abEngine, fmt.Sprintf("toTerm of %T", v)})
}

func fromTerm(t *Term) value {
	if t.IsConst() {
		if t.S.K == SBool {
			return t.Val != 0
		}
		if t.S.K == SBV {
			return I(t.Val)
		}
	}
	return t
}

func boolVal(b bool) value { return b }

// ---- binary ----

func (ex *Exec) binop(op token.Token, t types.Type, x, y value) value {
	tc := ex.tc
	// integers
	if w, signed, ok := intInfo(t); ok {
		xi, xc := x.(I)
		yi, yc := y.(I)
		if op == token.SHL || op == token.SHR {
			return ex.shift(op, w, signed, x, y)
		}
		if xc && yc {
			return intBinop(ex, op, w, signed, uint64(xi), uint64(yi))
		}
		xt, yt := ex.toTerm(x, w), ex.toTerm(y, w)
		switch op {
		case token.ADD:
			return fromTerm(tc.BVBin(OpBVAdd, xt, yt))
		case token.SUB:
			return fromTerm(tc.BVBin(OpBVSub, xt, yt))
		case token.MUL:
			return fromTerm(tc.BVBin(OpBVMul, xt, yt))
		case token.QUO, token.REM:
			zeroDiv := tc.Eq(yt, tc.BV(0, w))
			if ex.branchT(zeroDiv) {
				ex.panicRuntime("integer divide by zero")
			}
			var o Op
			switch {
			case op == token.QUO && signed:
				o = OpBVSDiv
			case op == token.QUO:
				o = OpBVUDiv
			case signed:
				o = OpBVSRem
			default:
				o = OpBVURem
			}
			return fromTerm(tc.BVBin(o, xt, yt))
		case token.AND:
			return fromTerm(tc.BVBin(OpBVAnd, xt, yt))
		case token.OR:
			return fromTerm(tc.BVBin(OpBVOr, xt, yt))
		case token.XOR:
			return fromTerm(tc.BVBin(OpBVXor, xt, yt))
		case token.AND_NOT:
			return fromTerm(tc.BVBin(OpBVAnd, xt, tc.BVUn(OpBVNot, yt)))
		case token.EQL:
			return fromTerm(tc.Eq(xt, yt))
		case token.NEQ:
			return fromTerm(tc.Not(tc.Eq(xt, yt)))
		case token.LSS:
			if signed {
				return fromTerm(tc.BVCmp(OpBVSlt, xt, yt))
			}
			return fromTerm(tc.BVCmp(OpBVUlt, xt, yt))
		case token.LEQ:
			if signed {
				return fromTerm(tc.BVCmp(OpBVSle, xt, yt))
			}
			return fromTerm(tc.BVCmp(OpBVUle, xt, yt))
		case token.GTR:
			if signed {
				return fromTerm(tc.BVCmp(OpBVSlt, yt, xt))
			}
			return fromTerm(tc.BVCmp(OpBVUlt, yt, xt))
		case token.GEQ:
			if signed {
				return fromTerm(tc.BVCmp(OpBVSle, yt, xt))
			}
			return fromTerm(tc.BVCmp(OpBVUle, yt, xt))
		}
		panic(unsupported("int binop " + op.String()))
	}
	if isBool(t) {
		xt, yt := ex.toTerm(x, 0), ex.toTerm(y, 0)
		switch op {
		case token.EQL:
			return fromTerm(tc.Eq(xt, yt))
		case token.NEQ:
			return fromTerm(tc.Not(tc.Eq(xt, yt)))
		case token.AND, token.LAND:
			return fromTerm(tc.And(xt, yt))
		case token.OR, token.LOR:
			return fromTerm(tc.Or(xt, yt))
		}
		panic(unsupported("bool binop " + op.String()))
	}
	if isFloat(t) {
		return floatBinop(op, x, y)
	}
	if isString(t) {
		return ex.stringBinop(op, x, y)
	}
	switch op {
	case token.EQL:
		return ex.equals(t, x, y)
	case token.NEQ:
		return ex.not(ex.equals(t, x, y))
	}
	panic(unsupported(fmt.Sprintf("binop %s on %s", op, t)))
}

func (ex *Exec) not(v value) value {
	switch v := v.(type) {
	case bool:
		return !v
	case *Term:
		return fromTerm(ex.tc.Not(v))
	}
	panic("not")
}

func intBinop(ex *Exec, op token.Token, w int, signed bool, x, y uint64) value {
	m := mask(w)
	sx, sy := sext(x, w), sext(y, w)
	switch op {
	case token.ADD:
		return I((x + y) & m)
	case token.SUB:
		return I((x - y) & m)
	case token.MUL:
		return I((x * y) & m)
	case token.QUO:
		if y == 0 {
			ex.panicRuntime("integer divide by zero")
		}
		if signed {
			if sy == -1 {
				return I(uint64(-sx) & m)
			}
			return I(uint64(sx/sy) & m)
		}
		return I(x / y)
	case token.REM:
		if y == 0 {
			ex.panicRuntime("integer divide by zero")
		}
		if signed {
			if sy == -1 {
				return I(0)
			}
			return I(uint64(sx%sy) & m)
		}
		return I(x % y)
	case token.AND:
		return I(x & y)
	case token.OR:
		return I(x | y)
	case token.XOR:
		return I(x ^ y)
	case token.AND_NOT:
		return I(x &^ y)
	case token.EQL:
		return x == y
	case token.NEQ:
		return x != y
	case token.LSS:
		if signed {
			return sx < sy
		}
		return x < y
	case token.LEQ:
		if signed {
			return sx <= sy
		}
		return x <= y
	case token.GTR:
		if signed {
			return sx > sy
		}
		return x > y
	case token.GEQ:
		if signed {
			return sx >= sy
		}
		return x >= y
	}
	panic(unsupported("int binop " + op.String()))
}

func (ex *Exec) shift(op token.Token, w int, signed bool, x, y value) value {
	// shift counts in go/ssa are unsigned or checked non-negative by the builder
	yi, yc := y.(I)
	if !yc {
		// symbolic shift count: rare; concretise
		yi = I(ex.concretize(y.(*Term)))
	}
	n := uint64(yi)
	if xi, ok := x.(I); ok {
		v := uint64(xi)
		if op == token.SHL {
			if n >= uint64(w) {
				return I(0)
			}
			return I((v << n) & mask(w))
		}
		if signed {
			if n >= uint64(w) {
				n = uint64(w - 1)
			}
			return I(uint64(sext(v, w)>>n) & mask(w))
		}
		if n >= uint64(w) {
			return I(0)
		}
		return I(v >> n)
	}
	xt := x.(*Term)
	tc := ex.tc
	cnt := tc.BV(n, w)
	if n >= uint64(w) {
		if op == token.SHL || !signed {
			return I(0)
		}
		cnt = tc.BV(uint64(w-1), w)
	}
	switch {
	case op == token.SHL:
		return fromTerm(tc.BVBin(OpBVShl, xt, cnt))
	case signed:
		return fromTerm(tc.BVBin(OpBVAshr, xt, cnt))
	}
	return fromTerm(tc.BVBin(OpBVLshr, xt, cnt))
}

func toF64(v value) float64 {
	switch v := v.(type) {
	case float64:
		return v
	case float32:
		return float64(v)
	}
	panic(unsupported(fmt.Sprintf("float operand %T", v)))
}

func floatBinop(op token.Token, x, y value) value {
	_, is32 := x.(float32)
	a, b := toF64(x), toF64(y)
	wrap := func(f float64) value {
		if is32 {
			return float32(f)
		}
		return f
	}
	switch op {
	case token.ADD:
		return wrap(a + b)
	case token.SUB:
		return wrap(a - b)
	case token.MUL:
		return wrap(a * b)
	case token.QUO:
		return wrap(a / b)
	case token.EQL:
		return a == b
	case token.NEQ:
		return a != b
	case token.LSS:
		return a < b
	case token.LEQ:
		return a <= b
	case token.GTR:
		return a > b
	case token.GEQ:
		return a >= b
	}
	panic(unsupported("float binop " + op.String()))
}

// ---- strings ----

func (ex *Exec) byteEq(a, b value) *Term {
	return ex.tc.Eq(ex.toTerm(a, 8), ex.toTerm(b, 8))
}

func (ex *Exec) stringBinop(op token.Token, x, y value) value {
	if _, ok := x.(*Opaque); ok {
		if op == token.ADD {
			return x
		}
		panic(unsupported("comparison of opaque string (" + x.(*Opaque).why + ")"))
	}
	if o, ok := y.(*Opaque); ok {
		if op == token.ADD {
			return y
		}
		panic(unsupported("comparison of opaque string (" + o.why + ")"))
	}
	xs, xc := x.(string)
	ys, yc := y.(string)
	if xc && yc {
		switch op {
		case token.ADD:
			return xs + ys
		case token.EQL:
			return xs == ys
		case token.NEQ:
			return xs != ys
		case token.LSS:
			return xs < ys
		case token.LEQ:
			return xs <= ys
		case token.GTR:
			return xs > ys
		case token.GEQ:
			return xs >= ys
		}
	}
	xb, yb := strBytes(x), strBytes(y)
	tc := ex.tc
	switch op {
	case token.ADD:
		r := make([]value, 0, len(xb)+len(yb))
		r = append(append(r, xb...), yb...)
		return mkString(r)
	case token.EQL, token.NEQ:
		var res *Term
		if len(xb) != len(yb) {
			res = tc.ff
		} else if ex.distinctAddresses(xb, yb) {
			// both strings spell the (symbolic) addresses of two different
			// objects at the same positions: distinct by construction
			res = tc.ff
		} else {
			res = tc.tt
			for i := len(xb) - 1; i >= 0; i-- {
				res = tc.And(ex.byteEq(xb[i], yb[i]), res)
			}
		}
		if op == token.NEQ {
			res = tc.Not(res)
		}
		return fromTerm(res)
	case token.LSS, token.LEQ, token.GTR, token.GEQ:
		if op == token.GTR || op == token.GEQ {
			xb, yb = yb, xb
		}
		orEq := op == token.LEQ || op == token.GEQ
		// lexicographic x < y
		n := len(xb)
		if len(yb) < n {
			n = len(yb)
		}
		var res *Term
		if len(xb) < len(yb) || (orEq && len(xb) == len(yb)) {
			res = tc.tt
		} else {
			res = tc.ff
		}
		for i := n - 1; i >= 0; i-- {
			a, b := ex.toTerm(xb[i], 8), ex.toTerm(yb[i], 8)
			res = tc.Ite(tc.Eq(a, b), res, tc.BVCmp(OpBVUlt, a, b))
		}
		return fromTerm(res)
	}
	panic(unsupported("string binop " + op.String()))
}

// ---- equality ----

func (ex *Exec) equals(t types.Type, x, y value) value {
	tc := ex.tc
	switch x := x.(type) {
	case bool, I, *Term:
		switch y.(type) {
		case bool, I, *Term:
		default:
			return false
		}
		w := 0
		if ww, _, ok := intInfo(t); ok {
			w = ww
		} else if xt, ok := x.(*Term); ok && xt.S.K == SBV {
			w = xt.S.W
		} else if yt, ok := y.(*Term); ok && yt.S.K == SBV {
			w = yt.S.W
		} else {
			w = 64
		}
		return fromTerm(tc.Eq(ex.toTerm(x, w), ex.toTerm(y, w)))
	case float64:
		return x == y.(float64)
	case float32:
		return x == y.(float32)
	case string, *SymStr, *Opaque:
		return ex.stringBinop(token.EQL, x, y)
	case *value:
		yp, ok := y.(*value)
		return ok && x == yp
	case *Host:
		yp, ok := y.(*Host)
		return ok && x == yp
	case *Map:
		ym, ok := y.(*Map)
		return ok && x == ym
	case []value:
		// only comparable against nil
		ys, _ := y.([]value)
		return x == nil && ys == nil
	case *ssa.Function:
		yf, ok := y.(*ssa.Function)
		if x == nil {
			return ok && yf == nil
		}
		return ok && x == yf
	case *closure:
		yc, ok := y.(*closure)
		return ok && x == yc
	case structure:
		ys := y.(structure)
		st := t.Underlying().(*types.Struct)
		var res value = true
		for i := 0; i < st.NumFields(); i++ {
			if st.Field(i).Name() == "_" {
				continue
			}
			res = ex.and(res, ex.equals(st.Field(i).Type(), x[i], ys[i]))
			if b, ok := res.(bool); ok && !b {
				return false
			}
		}
		return res
	case array:
		ya := y.(array)
		et := t.Underlying().(*types.Array).Elem()
		var res value = true
		for i := range x {
			res = ex.and(res, ex.equals(et, x[i], ya[i]))
			if b, ok := res.(bool); ok && !b {
				return false
			}
		}
		return res
	case iface:
		yi, ok := y.(iface)
		if !ok {
			return false
		}
		if x.t == nil || yi.t == nil {
			return x.t == nil && yi.t == nil
		}
		if !types.Identical(x.t, yi.t) {
			return false
		}
		if !types.Comparable(x.t) {
			ex.panicRuntime("comparing uncomparable type " + x.t.String())
		}
		return ex.equals(x.t, x.v, yi.v)
	case *IntV:
		panic(unsupported("== on zzverif.Int; use Eq"))
	}
	panic(unsupported(fmt.Sprintf("equals on %T (%v)", x, t)))
}

func (ex *Exec) and(a, b value) value {
	return fromTerm(ex.tc.And(ex.toTerm(a, 0), ex.toTerm(b, 0)))
}

// ---- conversions ----

func (ex *Exec) conv(tdst, tsrc types.Type, x value) value {
	ud, us := tdst.Underlying(), tsrc.Underlying()
	tc := ex.tc
	// integer destination
	if dw, dsigned, ok := intInfo(ud); ok {
		_ = dsigned
		if sw, ssigned, ok := intInfo(us); ok {
			switch x := x.(type) {
			case I:
				v := uint64(x)
				if ssigned {
					v = uint64(sext(v, sw))
				}
				return I(v & mask(dw))
			case *Term:
				if dw <= sw {
					return fromTerm(tc.Extract(x, dw-1, 0))
				}
				if ssigned {
					return fromTerm(tc.SignExt(x, dw))
				}
				return fromTerm(tc.ZeroExt(x, dw))
			}
		}
		switch x := x.(type) {
		case float64:
			return I(floatToInt(x, dw, dsigned))
		case float32:
			return I(floatToInt(float64(x), dw, dsigned))
		case *value: // unsafe.Pointer -> uintptr
			return I(uint64(uintptr(unsafe.Pointer(x))))
		}
	}
	if isFloat(ud) {
		is32 := ud.(*types.Basic).Kind() == types.Float32
		var f float64
		switch x := x.(type) {
		case I:
			sw, ssigned, _ := intInfo(us)
			if ssigned {
				f = float64(sext(uint64(x), sw))
			} else {
				f = float64(uint64(x))
			}
		case float64:
			f = x
		case float32:
			f = float64(x)
		case *Term:
			panic(unsupported("symbolic integer to float"))
		default:
			panic(unsupported(fmt.Sprintf("conv %T to float", x)))
		}
		if is32 {
			return float32(f)
		}
		return f
	}
	if isString(ud) {
		// from integer (rune), []byte, []rune, string
		if _, _, ok := intInfo(us); ok {
			switch x := x.(type) {
			case I:
				sw, _, _ := intInfo(us)
				return string(rune(sext(uint64(x), sw)))
			case *Term:
				return &Opaque{why: "string(symbolic rune)"}
			}
		}
		if isString(us) {
			return x
		}
		if sl, ok := us.(*types.Slice); ok {
			xs := x.([]value)
			eb := sl.Elem().Underlying().(*types.Basic)
			if eb.Kind() == types.Uint8 {
				return mkString(xs)
			}
			// []rune
			var out []value
			for _, r := range xs {
				rc, ok := r.(I)
				if !ok {
					return &Opaque{why: "string([]rune) with symbolic rune"}
				}
				for _, b := range []byte(string(rune(int32(uint32(rc))))) {
					out = append(out, I(b))
				}
			}
			return mkString(out)
		}
	}
	if sl, ok := ud.(*types.Slice); ok && isString(us) {
		eb := sl.Elem().Underlying().(*types.Basic)
		if o, isO := x.(*Opaque); isO {
			panic(unsupported("[]byte of opaque string (" + o.why + ")"))
		}
		if eb.Kind() == types.Uint8 {
			b := strBytes(x)
			r := make([]value, len(b))
			copy(r, b)
			return r
		}
		// []rune(string)
		return ex.decodeRunes(x)
	}
	// pointer <-> unsafe.Pointer, named conversions
	switch ud.(type) {
	case *types.Pointer:
		return x
	case *types.Basic:
		if ud.(*types.Basic).Kind() == types.UnsafePointer {
			return x
		}
	}
	panic(unsupported(fmt.Sprintf("conversion %s -> %s (%T)", tsrc, tdst, x)))
}

func floatToInt(f float64, w int, signed bool) uint64 {
	if signed {
		return uint64(int64(f)) & mask(w)
	}
	if f < 0 {
		return uint64(int64(f)) & mask(w)
	}
	if f >= math.MaxInt64 {
		return uint64(f) & mask(w)
	}
	return uint64(f) & mask(w)
}

func (ex *Exec) decodeRunes(s value) value {
	if cs, ok := s.(string); ok {
		var out []value
		for _, r := range cs {
			out = append(out, I(uint64(uint32(r))))
		}
		return out
	}
	it := &strIter{b: strBytes(s)}
	var out []value
	for {
		t := it.next(ex)
		if !t[0].(bool) {
			break
		}
		out = append(out, t[2])
	}
	return out
}

// ---- slicing ----

func (ex *Exec) slice(tx types.Type, x, lo, hi, max value) value {
	var length, capacity int
	var elems []value
	isStr := false
	switch x := x.(type) {
	case string, *SymStr:
		elems = strBytes(x)
		length = len(elems)
		capacity = length
		isStr = true
	case *Opaque:
		panic(unsupported("slice of opaque string (" + x.why + ")"))
	case []value:
		elems = x
		length = len(x)
		capacity = cap(x)
	case *value: // *array
		if x == nil {
			ex.panicRuntime("invalid memory address or nil pointer dereference")
		}
		a := (*x).(array)
		elems = a
		length = len(a)
		capacity = len(a)
	default:
		panic(unsupported(fmt.Sprintf("slice of %T", x)))
	}
	l, h, m := 0, length, capacity
	// Go checks: 0 <= lo <= hi <= max <= cap
	conc := func(v value, what string, limit int, code int) int {
		switch v := v.(type) {
		case I:
			if int64(v) < 0 || int64(v) > int64(limit) {
				ex.panicBounds(v, limit, code)
			}
			return int(v)
		case *Term:
			tc := ex.tc
			ok := tc.BVCmp(OpBVUle, v, tc.BV(uint64(limit), v.S.W))
			if !ex.branchT(ok) {
				ex.panicBounds(I(0), limit, code)
			}
			return int(ex.concretize(v))
		}
		panic(unsupported("slice bound"))
	}
	if max != nil {
		m = conc(max, "max", capacity, 5)
	}
	if hi != nil {
		lim := m
		if isStr {
			lim = length
		}
		h = conc(hi, "high", lim, 3)
	}
	if lo != nil {
		l = conc(lo, "low", h, 4)
	}
	if isStr {
		return mkString(elems[l:h])
	}
	if elems == nil {
		return []value(nil)
	}
	return elems[l:h:m]
}

// ---- lookup (map index, string index handled in Index) ----

func (ex *Exec) lookup(instr *ssa.Lookup, x, idx value) value {
	switch x := x.(type) {
	case *Map:
		var v value
		ok := false
		if x != nil {
			v, ok = x.lookup(ex, idx)
		}
		if !ok {
			v = zero(instr.X.Type().Underlying().(*types.Map).Elem())
		} else {
			v = copyVal(v)
		}
		if instr.CommaOk {
			return tuple{v, ok}
		}
		return v
	case string, *SymStr:
		bs := strBytes(x)
		if it, ok := idx.(*Term); ok {
			_, isigned, _ := intInfo(instr.Index.Type())
			return ex.loadRefByte(ex.symIndexAddr(bs, it, isigned, 8))
		}
		i := ex.indexIn(idx, instr.Index.Type(), len(bs))
		return bs[i]
	case *Opaque:
		panic(unsupported("index of opaque string (" + x.why + ")"))
	}
	panic(unsupported(fmt.Sprintf("lookup on %T", x)))
}

func (ex *Exec) loadRefByte(r value) value {
	switch r := r.(type) {
	case *value:
		return *r
	case *symRef:
		return ex.loadRef(r)
	}
	panic("loadRefByte")
}

// ---- range ----

type iter interface {
	next(ex *Exec) tuple
}

type strIter struct {
	b []value
	i int
}

func (it *strIter) next(ex *Exec) tuple {
	if it.i >= len(it.b) {
		return tuple{false, I(0), I(0)}
	}
	start := it.i
	b0 := it.b[it.i]
	if c, ok := b0.(I); ok && c < utf8.RuneSelf {
		it.i++
		return tuple{true, I(uint64(start)), I(uint64(c))}
	}
	// symbolic bytes involved: exact term-level decode, the (symbolic) size is
	// concretised by forking (at most 4 ways)
	end := it.i + 4
	if end > len(it.b) {
		end = len(it.b)
	}
	r, sz := ex.decodeRuneModel(it.b[it.i:end])
	n := int(ex.concreteInt(sz, "range over string: rune size"))
	if n < 1 {
		n = 1
	}
	it.i += n
	if rr, ok := r.(*Term); ok {
		r = ex.resolve(rr)
	}
	return tuple{true, I(uint64(start)), r}
}

func (ex *Exec) rangeIter(x value, t types.Type) iter {
	switch x := x.(type) {
	case *Map:
		return newMapIter(ex, x)
	case string, *SymStr:
		return &strIter{b: strBytes(x)}
	case *Opaque:
		panic(unsupported("range over opaque string"))
	}
	panic(unsupported(fmt.Sprintf("range over %T", x)))
}

// ---- builtins ----

func (ex *Exec) callBuiltin(caller *frame, pos token.Pos, fn *ssa.Builtin, args []value) value {
	switch fn.Name() {
	case "append":
		if len(args) == 1 {
			return args[0]
		}
		var src []value
		switch s := args[1].(type) {
		case []value:
			src = s
		case string, *SymStr:
			src = strBytes(s)
		case *Opaque:
			panic(unsupported("append of opaque string"))
		default:
			panic(unsupported(fmt.Sprintf("append %T", s)))
		}
		dst := args[0].([]value)
		if len(src) == 0 {
			return dst
		}
		// copy elements (value semantics for aggregates)
		add := make([]value, len(src))
		for i, v := range src {
			add[i] = copyVal(v)
		}
		// Go's growth: reallocate iff len+n > cap; the new capacity is an
		// implementation detail, we use the runtime's doubling rule roughly.
		if len(dst)+len(add) <= cap(dst) {
			return append(dst, add...)
		}
		newCap := cap(dst) * 2
		if newCap < len(dst)+len(add) {
			newCap = len(dst) + len(add)
		}
		nd := make([]value, len(dst), newCap)
		copy(nd, dst)
		// the spare capacity must hold zero values of the element type
		nd = append(nd, add...)
		if cap(nd) > len(nd) {
			var z value
			if len(nd) > 0 {
				z = zeroLike(nd[0])
			}
			full := nd[:cap(nd)]
			for i := len(nd); i < len(full); i++ {
				full[i] = copyVal(z)
			}
		}
		return nd
	case "copy":
		dst := args[0].([]value)
		var src []value
		switch s := args[1].(type) {
		case []value:
			src = s
		case string, *SymStr:
			src = strBytes(s)
		default:
			panic(unsupported(fmt.Sprintf("copy from %T", s)))
		}
		n := len(src)
		if len(dst) < n {
			n = len(dst)
		}
		tmp := make([]value, n)
		for i := 0; i < n; i++ {
			tmp[i] = copyVal(src[i])
		}
		copy(dst, tmp)
		return I(uint64(n))
	case "len":
		switch x := args[0].(type) {
		case string, *SymStr, *Opaque:
			return I(uint64(strLen(x)))
		case []value:
			return I(uint64(len(x)))
		case array:
			return I(uint64(len(x)))
		case *value:
			return I(uint64(len((*x).(array))))
		case *Map:
			if x == nil {
				return I(0)
			}
			return I(uint64(x.len()))
		}
		panic(unsupported(fmt.Sprintf("len of %T", args[0])))
	case "cap":
		switch x := args[0].(type) {
		case []value:
			return I(uint64(cap(x)))
		case array:
			return I(uint64(len(x)))
		case *value:
			return I(uint64(len((*x).(array))))
		}
		panic(unsupported(fmt.Sprintf("cap of %T", args[0])))
	case "delete":
		m := args[0].(*Map)
		if m != nil {
			m.delete(ex, args[1])
		}
		return nil
	case "panic":
		panic(targetPanic{args[0]})
	case "recover":
		return ex.doRecover(caller)
	case "print", "println":
		return nil
	case "min", "max":
		panic(unsupported("builtin " + fn.Name()))
	case "clear":
		switch x := args[0].(type) {
		case *Map:
			if x != nil {
				x.clear()
			}
		default:
			panic(unsupported("clear of slice"))
		}
		return nil
	case "ssa:wrapnilchk":
		recv := args[0]
		if p, ok := recv.(*value); ok && p == nil {
			ex.panicRuntime("value method called using nil pointer")
		}
		return recv
	case "String": // unsafe.String(ptr, len)
		p := args[0].(*value)
		n := int(ex.concreteInt(args[1], "unsafe.String len"))
		if n == 0 {
			return ""
		}
		return mkString(unsafe.Slice(p, n))
	case "StringData":
		b := strBytes(args[0])
		if len(b) == 0 {
			return (*value)(nil)
		}
		cp := make([]value, len(b))
		copy(cp, b)
		return &cp[0]
	case "SliceData":
		s := args[0].([]value)
		if cap(s) == 0 {
			return (*value)(nil)
		}
		return &s[:1][0]
	case "Slice": // unsafe.Slice(ptr, len)
		p := args[0].(*value)
		n := int(ex.concreteInt(args[1], "unsafe.Slice len"))
		if p == nil {
			return []value(nil)
		}
		return unsafe.Slice(p, n)
	}
	panic(unsupported("builtin " + fn.Name()))
}

func zeroLike(v value) value {
	switch v := v.(type) {
	case I, *Term:
		return I(0)
	case bool:
		return false
	case string, *SymStr, *Opaque:
		return ""
	case *value:
		return (*value)(nil)
	case []value:
		return []value(nil)
	case *Map:
		return (*Map)(nil)
	case iface:
		return iface{}
	case structure:
		r := make(structure, len(v))
		for i := range v {
			r[i] = zeroLike(v[i])
		}
		return r
	case array:
		r := make(array, len(v))
		for i := range v {
			r[i] = zeroLike(v[i])
		}
		return r
	case float64:
		return float64(0)
	case *ssa.Function, *closure:
		return (*ssa.Function)(nil)
	}
	return nil
}

// distinctAddresses reports whether x and y contain, at the same six
// positions, the address bytes of two different objects (see addressText).
func (ex *Exec) distinctAddresses(x, y []value) bool {
	if len(ex.addrOwner) == 0 {
		return false
	}
	n := 0
	for i := range x {
		tx, ok1 := x[i].(*Term)
		ty, ok2 := y[i].(*Term)
		if !ok1 || !ok2 {
			continue
		}
		ox, okx := ex.addrOwner[tx]
		oy, oky := ex.addrOwner[ty]
		if okx && oky && ox != oy {
			n++
		}
	}
	return n >= 6
}
