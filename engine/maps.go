package main

// Insertion-ordered map with solver-decided key equality for symbolic keys.

import (
	"fmt"
	"go/types"
	"strings"
)

type mapEntry struct {
	key, val value
	dead     bool
}

type Map struct {
	kt, vt  types.Type
	entries []*mapEntry
	index   map[interface{}]*mapEntry // fully concrete, hashable keys
	symKeys int                        // live entries whose key is not hashable concretely
	live    int
}

func newMap(t *types.Map) *Map {
	return &Map{kt: t.Key(), vt: t.Elem(), index: map[interface{}]*mapEntry{}}
}

// hostKey returns a comparable host value identifying a fully concrete key.
func hostKey(v value) (interface{}, bool) {
	switch v := v.(type) {
	case bool, I, string, float64, float32:
		return v, true
	case *value:
		return v, true
	case *Host:
		return v, true
	case *Term, *SymStr, *Opaque:
		return nil, false
	case iface:
		if v.t == nil {
			return "nil-iface", true
		}
		k, ok := hostKey(v.v)
		if !ok {
			return nil, false
		}
		return fmt.Sprintf("I(%s|%v)", v.t.String(), k), true
	case structure:
		var sb strings.Builder
		sb.WriteString("S(")
		for _, f := range v {
			k, ok := hostKey(f)
			if !ok {
				return nil, false
			}
			fmt.Fprintf(&sb, "%T:%v,", k, k)
		}
		sb.WriteString(")")
		return sb.String(), true
	case array:
		var sb strings.Builder
		sb.WriteString("A(")
		for _, f := range v {
			k, ok := hostKey(f)
			if !ok {
				return nil, false
			}
			fmt.Fprintf(&sb, "%T:%v,", k, k)
		}
		sb.WriteString(")")
		return sb.String(), true
	}
	return nil, false
}

func (m *Map) find(ex *Exec, key value) *mapEntry {
	hk, conc := hostKey(key)
	if conc && m.symKeys == 0 {
		return m.index[hk]
	}
	if conc {
		if e := m.index[hk]; e != nil {
			return e
		}
	}
	for _, e := range m.entries {
		if e.dead {
			continue
		}
		if conc {
			if _, ec := hostKey(e.key); ec {
				continue // concrete vs concrete, already decided by the index
			}
		}
		if ex.truth(ex.equals(m.kt, key, e.key)) {
			return e
		}
	}
	return nil
}

func (m *Map) lookup(ex *Exec, key value) (value, bool) {
	if e := m.find(ex, key); e != nil {
		return e.val, true
	}
	return nil, false
}

func (m *Map) insert(ex *Exec, key, val value) {
	if e := m.find(ex, key); e != nil {
		e.val = val
		return
	}
	e := &mapEntry{key: copyVal(key), val: val}
	m.entries = append(m.entries, e)
	m.live++
	if hk, ok := hostKey(key); ok {
		m.index[hk] = e
	} else {
		m.symKeys++
	}
}

func (m *Map) delete(ex *Exec, key value) {
	e := m.find(ex, key)
	if e == nil {
		return
	}
	e.dead = true
	m.live--
	if hk, ok := hostKey(e.key); ok {
		delete(m.index, hk)
	} else {
		m.symKeys--
	}
	// compact occasionally
	if len(m.entries) > 32 && m.live < len(m.entries)/2 {
		var n []*mapEntry
		for _, x := range m.entries {
			if !x.dead {
				n = append(n, x)
			}
		}
		m.entries = n
	}
}

func (m *Map) clear() {
	for _, e := range m.entries {
		e.dead = true
	}
	m.entries = nil
	m.index = map[interface{}]*mapEntry{}
	m.symKeys = 0
	m.live = 0
}

func (m *Map) len() int { return m.live }

type mapIter struct {
	m     *Map
	order []*mapEntry
	i     int
}

// newMapIter snapshots the live entries in the order selected by the engine
// parameter mapOrder (0 insertion, 1 reverse, k>=2 rotation by k-1).
func newMapIter(ex *Exec, m *Map) *mapIter {
	it := &mapIter{m: m}
	if m == nil {
		return it
	}
	var live []*mapEntry
	for _, e := range m.entries {
		if !e.dead {
			live = append(live, e)
		}
	}
	n := len(live)
	switch {
	case ex.mapOrder == 0 || n < 2:
		it.order = live
	case ex.mapOrder == 1:
		for i := n - 1; i >= 0; i-- {
			it.order = append(it.order, live[i])
		}
	default:
		k := (ex.mapOrder - 1) % n
		it.order = append(append(it.order, live[k:]...), live[:k]...)
	}
	if n >= 2 {
		ex.mapRanges++
	}
	return it
}

func (it *mapIter) next(ex *Exec) tuple {
	for it.i < len(it.order) {
		e := it.order[it.i]
		it.i++
		if e.dead {
			continue
		}
		return tuple{true, copyVal(e.key), copyVal(e.val)}
	}
	return tuple{false, nil, nil}
}
