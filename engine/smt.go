package main

// SMT term DAG with light simplification and an SMT-LIB2 printer.
// Bit-vectors stand for Go machine integers (wrap-around semantics);
// mathematical integers (sort Int) are used only by harness-side oracles.

import (
	"fmt"
	"math/big"
	"strconv"
	"strings"
)

type SortKind uint8

const (
	SBool SortKind = iota
	SBV
	SInt
)

type Sort struct {
	K SortKind
	W int // bit width for SBV
}

func (s Sort) String() string {
	switch s.K {
	case SBool:
		return "Bool"
	case SBV:
		return "(_ BitVec " + strconv.Itoa(s.W) + ")"
	}
	return "Int"
}

var sortBool = Sort{K: SBool}
var sortInt = Sort{K: SInt}

func bv(w int) Sort { return Sort{K: SBV, W: w} }

type Op uint8

const (
	OpConst Op = iota // BV or Bool constant (Val); Int constant (Big)
	OpVar
	OpNot
	OpAnd
	OpOr
	OpEq
	OpIte
	OpBVAdd
	OpBVSub
	OpBVMul
	OpBVUDiv
	OpBVURem
	OpBVSDiv
	OpBVSRem
	OpBVAnd
	OpBVOr
	OpBVXor
	OpBVShl
	OpBVLshr
	OpBVAshr
	OpBVNot
	OpBVNeg
	OpBVUlt
	OpBVUle
	OpBVSlt
	OpBVSle
	OpZeroExt // Val = extra bits
	OpSignExt // Val = extra bits
	OpExtract // Val = hi<<8|lo
	OpConcat
	OpBV2Nat
	OpIntAdd
	OpIntSub
	OpIntMul
	OpIntNeg
	OpIntLt
	OpIntLe
	OpInt2BV // Val = width
)

var opNames = map[Op]string{
	OpNot: "not", OpAnd: "and", OpOr: "or", OpEq: "=", OpIte: "ite",
	OpBVAdd: "bvadd", OpBVSub: "bvsub", OpBVMul: "bvmul", OpBVUDiv: "bvudiv", OpBVURem: "bvurem",
	OpBVSDiv: "bvsdiv", OpBVSRem: "bvsrem", OpBVAnd: "bvand", OpBVOr: "bvor", OpBVXor: "bvxor",
	OpBVShl: "bvshl", OpBVLshr: "bvlshr", OpBVAshr: "bvashr", OpBVNot: "bvnot", OpBVNeg: "bvneg",
	OpBVUlt: "bvult", OpBVUle: "bvule", OpBVSlt: "bvslt", OpBVSle: "bvsle", OpConcat: "concat",
	OpBV2Nat: "bv2nat", OpIntAdd: "+", OpIntSub: "-", OpIntMul: "*", OpIntNeg: "-", OpIntLt: "<", OpIntLe: "<=",
}

type Term struct {
	Op   Op
	S    Sort
	Args []*Term
	Val  uint64
	Big  *big.Int // Int constants
	Name string   // variables
	id   int
	supp    uint64 // mask of variable indices < 64 occurring in the term
	suppBig bool   // a variable with index >= 64 occurs
	size int    // tree size, named sub-terms count 1
	def  string // name of define-fun once emitted (per solver context)
}

func (t *Term) IsConst() bool { return t.Op == OpConst }

// TermCtx hash-conses terms for one path.
type TermCtx struct {
	tab    map[string]*Term
	nextID int
	vars   []*Term
	tt, ff *Term
}

func NewTermCtx() *TermCtx {
	c := &TermCtx{tab: map[string]*Term{}}
	c.tt = c.mk(&Term{Op: OpConst, S: sortBool, Val: 1})
	c.ff = c.mk(&Term{Op: OpConst, S: sortBool, Val: 0})
	return c
}

func (c *TermCtx) key(t *Term) string {
	var sb strings.Builder
	sb.WriteByte(byte(t.Op) + 'A')
	sb.WriteByte(byte(t.S.K) + '0')
	sb.WriteString(strconv.Itoa(t.S.W))
	sb.WriteByte(':')
	sb.WriteString(strconv.FormatUint(t.Val, 16))
	if t.Big != nil {
		sb.WriteByte('#')
		sb.WriteString(t.Big.String())
	}
	if t.Name != "" {
		sb.WriteByte('$')
		sb.WriteString(t.Name)
	}
	for _, a := range t.Args {
		sb.WriteByte(',')
		sb.WriteString(strconv.Itoa(a.id))
	}
	return sb.String()
}

func (c *TermCtx) mk(t *Term) *Term {
	k := c.key(t)
	if o, ok := c.tab[k]; ok {
		return o
	}
	c.nextID++
	t.id = c.nextID
	t.size = 1
	for _, a := range t.Args {
		t.supp |= a.supp
		t.suppBig = t.suppBig || a.suppBig
		if a.size > 24 {
			t.size++
		} else {
			t.size += a.size
		}
	}
	c.tab[k] = t
	return t
}

func mask(w int) uint64 {
	if w >= 64 {
		return ^uint64(0)
	}
	return (uint64(1) << uint(w)) - 1
}

func sext(v uint64, w int) int64 {
	if w >= 64 {
		return int64(v)
	}
	sh := uint(64 - w)
	return int64(v<<sh) >> sh
}

func (c *TermCtx) Bool(b bool) *Term {
	if b {
		return c.tt
	}
	return c.ff
}

func (c *TermCtx) BV(v uint64, w int) *Term {
	return c.mk(&Term{Op: OpConst, S: bv(w), Val: v & mask(w)})
}

func (c *TermCtx) IntConst(v *big.Int) *Term {
	return c.mk(&Term{Op: OpConst, S: sortInt, Big: new(big.Int).Set(v)})
}

func (c *TermCtx) Var(name string, s Sort) *Term {
	k := len(c.tab)
	t := c.mk(&Term{Op: OpVar, S: s, Name: name})
	if len(c.tab) != k {
		idx := len(c.vars)
		t.Val = uint64(idx)
		if idx < 64 {
			t.supp = 1 << uint(idx)
		} else {
			t.suppBig = true
		}
		c.vars = append(c.vars, t)
	}
	return t
}

func (c *TermCtx) Not(a *Term) *Term {
	if a.IsConst() {
		return c.Bool(a.Val == 0)
	}
	if a.Op == OpNot {
		return a.Args[0]
	}
	return c.mk(&Term{Op: OpNot, S: sortBool, Args: []*Term{a}})
}

func (c *TermCtx) And(a, b *Term) *Term {
	if a.IsConst() {
		if a.Val == 0 {
			return c.ff
		}
		return b
	}
	if b.IsConst() {
		if b.Val == 0 {
			return c.ff
		}
		return a
	}
	if a == b {
		return a
	}
	return c.mk(&Term{Op: OpAnd, S: sortBool, Args: []*Term{a, b}})
}

func (c *TermCtx) Or(a, b *Term) *Term {
	if a.IsConst() {
		if a.Val != 0 {
			return c.tt
		}
		return b
	}
	if b.IsConst() {
		if b.Val != 0 {
			return c.tt
		}
		return a
	}
	if a == b {
		return a
	}
	return c.mk(&Term{Op: OpOr, S: sortBool, Args: []*Term{a, b}})
}

func (c *TermCtx) Eq(a, b *Term) *Term {
	if a == b {
		return c.tt
	}
	if a.S != b.S {
		panic(fmt.Sprintf("smt: Eq sort mismatch %v %v", a.S, b.S))
	}
	if a.IsConst() && b.IsConst() {
		if a.S.K == SInt {
			return c.Bool(a.Big.Cmp(b.Big) == 0)
		}
		return c.Bool(a.Val == b.Val)
	}
	if a.S.K == SBool {
		if a.IsConst() {
			a, b = b, a
		}
		if b.IsConst() {
			if b.Val != 0 {
				return a
			}
			return c.Not(a)
		}
	}
	if a.S.K == SBV {
		// zero_extend(x) == const outside range
		if a.IsConst() {
			a, b = b, a
		}
		if b.IsConst() && a.Op == OpZeroExt {
			iw := a.Args[0].S.W
			if b.Val > mask(iw) {
				return c.ff
			}
			return c.Eq(a.Args[0], c.BV(b.Val, iw))
		}
		if b.IsConst() && a.Op == OpIte && a.Args[1].IsConst() && a.Args[2].IsConst() {
			// ite(c, k1, k2) == k
			t1 := a.Args[1].Val == b.Val
			t2 := a.Args[2].Val == b.Val
			switch {
			case t1 && t2:
				return c.tt
			case t1:
				return a.Args[0]
			case t2:
				return c.Not(a.Args[0])
			default:
				return c.ff
			}
		}
	}
	if a.id > b.id {
		a, b = b, a
	}
	return c.mk(&Term{Op: OpEq, S: sortBool, Args: []*Term{a, b}})
}

func (c *TermCtx) Ite(cond, a, b *Term) *Term {
	if cond.IsConst() {
		if cond.Val != 0 {
			return a
		}
		return b
	}
	if a == b {
		return a
	}
	if a.S != b.S {
		panic(fmt.Sprintf("smt: Ite sort mismatch %v %v", a.S, b.S))
	}
	if a.S.K == SBool {
		if a.IsConst() && b.IsConst() {
			if a.Val != 0 {
				return cond
			}
			return c.Not(cond)
		}
		if a.IsConst() {
			if a.Val != 0 {
				return c.Or(cond, b)
			}
			return c.And(c.Not(cond), b)
		}
		if b.IsConst() {
			if b.Val != 0 {
				return c.Or(c.Not(cond), a)
			}
			return c.And(cond, a)
		}
	}
	return c.mk(&Term{Op: OpIte, S: a.S, Args: []*Term{cond, a, b}})
}

func foldBV(op Op, x, y uint64, w int) (uint64, bool) {
	m := mask(w)
	switch op {
	case OpBVAdd:
		return (x + y) & m, true
	case OpBVSub:
		return (x - y) & m, true
	case OpBVMul:
		return (x * y) & m, true
	case OpBVUDiv:
		if y == 0 {
			return m, true
		}
		return x / y, true
	case OpBVURem:
		if y == 0 {
			return x, true
		}
		return x % y, true
	case OpBVSDiv:
		if y == 0 {
			return 0, false
		}
		sx, sy := sext(x, w), sext(y, w)
		if sy == -1 {
			return uint64(-sx) & m, true
		}
		return uint64(sx/sy) & m, true
	case OpBVSRem:
		if y == 0 {
			return 0, false
		}
		sx, sy := sext(x, w), sext(y, w)
		if sy == -1 {
			return 0, true
		}
		return uint64(sx%sy) & m, true
	case OpBVAnd:
		return x & y, true
	case OpBVOr:
		return x | y, true
	case OpBVXor:
		return x ^ y, true
	case OpBVShl:
		if y >= uint64(w) {
			return 0, true
		}
		return (x << y) & m, true
	case OpBVLshr:
		if y >= uint64(w) {
			return 0, true
		}
		return x >> y, true
	case OpBVAshr:
		sx := sext(x, w)
		if y >= uint64(w) {
			y = uint64(w - 1)
		}
		return uint64(sx>>y) & m, true
	}
	return 0, false
}

func (c *TermCtx) BVBin(op Op, a, b *Term) *Term {
	if a.S != b.S || a.S.K != SBV {
		panic(fmt.Sprintf("smt: BVBin %s sort mismatch %v %v", opNames[op], a.S, b.S))
	}
	w := a.S.W
	if a.IsConst() && b.IsConst() {
		if v, ok := foldBV(op, a.Val, b.Val, w); ok {
			return c.BV(v, w)
		}
	}
	switch op {
	case OpBVAdd, OpBVOr, OpBVXor:
		if a.IsConst() && a.Val == 0 {
			return b
		}
		if b.IsConst() && b.Val == 0 {
			return a
		}
	case OpBVSub, OpBVShl, OpBVLshr, OpBVAshr:
		if b.IsConst() && b.Val == 0 {
			return a
		}
	case OpBVMul:
		if a.IsConst() && a.Val == 1 {
			return b
		}
		if b.IsConst() && b.Val == 1 {
			return a
		}
		if (a.IsConst() && a.Val == 0) || (b.IsConst() && b.Val == 0) {
			return c.BV(0, w)
		}
	case OpBVAnd:
		if (a.IsConst() && a.Val == 0) || (b.IsConst() && b.Val == 0) {
			return c.BV(0, w)
		}
		if a.IsConst() && a.Val == mask(w) {
			return b
		}
		if b.IsConst() && b.Val == mask(w) {
			return a
		}
	}
	return c.mk(&Term{Op: op, S: a.S, Args: []*Term{a, b}})
}

func (c *TermCtx) BVUn(op Op, a *Term) *Term {
	w := a.S.W
	if a.IsConst() {
		switch op {
		case OpBVNot:
			return c.BV(^a.Val, w)
		case OpBVNeg:
			return c.BV(-a.Val, w)
		}
	}
	return c.mk(&Term{Op: op, S: a.S, Args: []*Term{a}})
}

// urange returns an unsigned upper bound for a BV term when cheaply known.
func urange(t *Term) (uint64, bool) {
	switch t.Op {
	case OpConst:
		return t.Val, true
	case OpZeroExt:
		if r, ok := urange(t.Args[0]); ok {
			return r, true
		}
		return mask(t.Args[0].S.W), true
	case OpIte:
		a, ok1 := urange(t.Args[1])
		b, ok2 := urange(t.Args[2])
		if ok1 && ok2 {
			if a > b {
				return a, true
			}
			return b, true
		}
	}
	if t.S.W < 64 {
		return mask(t.S.W), true
	}
	return 0, false
}

func (c *TermCtx) BVCmp(op Op, a, b *Term) *Term {
	if a.S != b.S || a.S.K != SBV {
		panic(fmt.Sprintf("smt: BVCmp sort mismatch %v %v", a.S, b.S))
	}
	w := a.S.W
	if a.IsConst() && b.IsConst() {
		switch op {
		case OpBVUlt:
			return c.Bool(a.Val < b.Val)
		case OpBVUle:
			return c.Bool(a.Val <= b.Val)
		case OpBVSlt:
			return c.Bool(sext(a.Val, w) < sext(b.Val, w))
		case OpBVSle:
			return c.Bool(sext(a.Val, w) <= sext(b.Val, w))
		}
	}
	if a == b {
		return c.Bool(op == OpBVUle || op == OpBVSle)
	}
	// cheap range reasoning (common: zero-extended bytes vs constants)
	if b.IsConst() {
		if r, ok := urange(a); ok && r < (uint64(1)<<uint(w-1)) && sext(b.Val, w) >= 0 {
			switch op {
			case OpBVUlt, OpBVSlt:
				if r < b.Val {
					return c.tt
				}
			case OpBVUle, OpBVSle:
				if r <= b.Val {
					return c.tt
				}
			}
		}
		if op == OpBVUlt && b.Val == 0 {
			return c.ff
		}
	}
	if a.IsConst() {
		if r, ok := urange(b); ok && r < (uint64(1)<<uint(w-1)) && sext(a.Val, w) >= 0 {
			switch op {
			case OpBVUlt, OpBVSlt:
				if r <= a.Val {
					return c.ff
				}
			case OpBVUle, OpBVSle:
				if r < a.Val {
					return c.ff
				}
			}
		}
		if op == OpBVUle && a.Val == 0 {
			return c.tt
		}
	}
	return c.mk(&Term{Op: op, S: sortBool, Args: []*Term{a, b}})
}

func (c *TermCtx) ZeroExt(a *Term, to int) *Term {
	if to == a.S.W {
		return a
	}
	if to < a.S.W {
		return c.Extract(a, to-1, 0)
	}
	if a.IsConst() {
		return c.BV(a.Val, to)
	}
	if a.Op == OpZeroExt {
		return c.ZeroExt(a.Args[0], to)
	}
	return c.mk(&Term{Op: OpZeroExt, S: bv(to), Args: []*Term{a}, Val: uint64(to - a.S.W)})
}

func (c *TermCtx) SignExt(a *Term, to int) *Term {
	if to == a.S.W {
		return a
	}
	if to < a.S.W {
		return c.Extract(a, to-1, 0)
	}
	if a.IsConst() {
		return c.BV(uint64(sext(a.Val, a.S.W)), to)
	}
	return c.mk(&Term{Op: OpSignExt, S: bv(to), Args: []*Term{a}, Val: uint64(to - a.S.W)})
}

func (c *TermCtx) Extract(a *Term, hi, lo int) *Term {
	if lo == 0 && hi == a.S.W-1 {
		return a
	}
	if a.IsConst() {
		return c.BV(a.Val>>uint(lo), hi-lo+1)
	}
	if (a.Op == OpZeroExt || a.Op == OpSignExt) && lo == 0 {
		iw := a.Args[0].S.W
		if hi+1 == iw {
			return a.Args[0]
		}
		if hi+1 < iw {
			return c.Extract(a.Args[0], hi, 0)
		}
		if a.Op == OpZeroExt {
			return c.ZeroExt(a.Args[0], hi+1)
		}
		return c.SignExt(a.Args[0], hi+1)
	}
	return c.mk(&Term{Op: OpExtract, S: bv(hi - lo + 1), Args: []*Term{a}, Val: uint64(hi)<<8 | uint64(lo)})
}

func (c *TermCtx) Concat(a, b *Term) *Term {
	if a.IsConst() && b.IsConst() && a.S.W+b.S.W <= 64 {
		return c.BV(a.Val<<uint(b.S.W)|b.Val, a.S.W+b.S.W)
	}
	return c.mk(&Term{Op: OpConcat, S: bv(a.S.W + b.S.W), Args: []*Term{a, b}})
}

// ---- Int (oracle) ----

func (c *TermCtx) BV2Nat(a *Term) *Term {
	if a.IsConst() {
		return c.IntConst(new(big.Int).SetUint64(a.Val))
	}
	return c.mk(&Term{Op: OpBV2Nat, S: sortInt, Args: []*Term{a}})
}

func (c *TermCtx) IntBin(op Op, a, b *Term) *Term {
	if a.IsConst() && b.IsConst() {
		r := new(big.Int)
		switch op {
		case OpIntAdd:
			return c.IntConst(r.Add(a.Big, b.Big))
		case OpIntSub:
			return c.IntConst(r.Sub(a.Big, b.Big))
		case OpIntMul:
			return c.IntConst(r.Mul(a.Big, b.Big))
		}
	}
	if op == OpIntMul {
		if a.IsConst() && a.Big.Cmp(big.NewInt(1)) == 0 {
			return b
		}
		if b.IsConst() && b.Big.Cmp(big.NewInt(1)) == 0 {
			return a
		}
	}
	if op == OpIntAdd {
		if a.IsConst() && a.Big.Sign() == 0 {
			return b
		}
		if b.IsConst() && b.Big.Sign() == 0 {
			return a
		}
	}
	return c.mk(&Term{Op: op, S: sortInt, Args: []*Term{a, b}})
}

func (c *TermCtx) IntNeg(a *Term) *Term {
	if a.IsConst() {
		return c.IntConst(new(big.Int).Neg(a.Big))
	}
	return c.mk(&Term{Op: OpIntNeg, S: sortInt, Args: []*Term{a}})
}

func (c *TermCtx) IntCmp(op Op, a, b *Term) *Term {
	if a.IsConst() && b.IsConst() {
		k := a.Big.Cmp(b.Big)
		if op == OpIntLt {
			return c.Bool(k < 0)
		}
		return c.Bool(k <= 0)
	}
	return c.mk(&Term{Op: op, S: sortBool, Args: []*Term{a, b}})
}

// ---- printing ----

func bvLit(v uint64, w int) string {
	if w%4 == 0 {
		return fmt.Sprintf("#x%0*x", w/4, v&mask(w))
	}
	return fmt.Sprintf("#b%0*b", w, v&mask(w))
}

// emit writes the SMT-LIB text of t into sb. Sub-terms that are large are
// defined once with define-fun (appended to defs) and referenced by name.
func (t *Term) emit(sb *strings.Builder, defs *strings.Builder, epoch *int, ctr *int, defined map[*Term]string) {
	if n, ok := defined[t]; ok {
		sb.WriteString(n)
		return
	}
	switch t.Op {
	case OpConst:
		switch t.S.K {
		case SBool:
			if t.Val != 0 {
				sb.WriteString("true")
			} else {
				sb.WriteString("false")
			}
		case SBV:
			sb.WriteString(bvLit(t.Val, t.S.W))
		case SInt:
			if t.Big.Sign() < 0 {
				sb.WriteString("(- " + new(big.Int).Neg(t.Big).String() + ")")
			} else {
				sb.WriteString(t.Big.String())
			}
		}
		return
	case OpVar:
		sb.WriteString(t.Name)
		return
	}
	if t.size > 24 && defs != nil {
		var body strings.Builder
		t.emitBody(&body, defs, epoch, ctr, defined)
		*ctr++
		name := "t!" + strconv.Itoa(*ctr)
		defs.WriteString("(define-fun " + name + " () " + t.S.String() + " " + body.String() + ")\n")
		defined[t] = name
		sb.WriteString(name)
		return
	}
	t.emitBody(sb, defs, epoch, ctr, defined)
}

func (t *Term) emitBody(sb *strings.Builder, defs *strings.Builder, epoch *int, ctr *int, defined map[*Term]string) {
	sb.WriteByte('(')
	switch t.Op {
	case OpZeroExt:
		fmt.Fprintf(sb, "(_ zero_extend %d)", t.Val)
	case OpSignExt:
		fmt.Fprintf(sb, "(_ sign_extend %d)", t.Val)
	case OpExtract:
		fmt.Fprintf(sb, "(_ extract %d %d)", t.Val>>8, t.Val&0xff)
	case OpInt2BV:
		fmt.Fprintf(sb, "(_ int2bv %d)", t.Val)
	default:
		sb.WriteString(opNames[t.Op])
	}
	for _, a := range t.Args {
		sb.WriteByte(' ')
		a.emit(sb, defs, epoch, ctr, defined)
	}
	sb.WriteByte(')')
}

// evalTerm evaluates a term under a total assignment of its variables
// (used to predict Observe values and to double check models).
func evalTerm(t *Term, env map[string]uint64, memo map[*Term]*big.Int) *big.Int {
	if v, ok := memo[t]; ok {
		return v
	}
	var r *big.Int
	u := func(i int) uint64 { return evalTerm(t.Args[i], env, memo).Uint64() }
	b := func(x bool) *big.Int {
		if x {
			return big.NewInt(1)
		}
		return big.NewInt(0)
	}
	switch t.Op {
	case OpConst:
		if t.S.K == SInt {
			r = t.Big
		} else {
			r = new(big.Int).SetUint64(t.Val)
		}
	case OpVar:
		r = new(big.Int).SetUint64(env[t.Name])
	case OpNot:
		r = b(u(0) == 0)
	case OpAnd:
		r = b(u(0) != 0 && u(1) != 0)
	case OpOr:
		r = b(u(0) != 0 || u(1) != 0)
	case OpEq:
		r = b(evalTerm(t.Args[0], env, memo).Cmp(evalTerm(t.Args[1], env, memo)) == 0)
	case OpIte:
		if u(0) != 0 {
			r = evalTerm(t.Args[1], env, memo)
		} else {
			r = evalTerm(t.Args[2], env, memo)
		}
	case OpBVAdd, OpBVSub, OpBVMul, OpBVUDiv, OpBVURem, OpBVSDiv, OpBVSRem, OpBVAnd, OpBVOr, OpBVXor, OpBVShl, OpBVLshr, OpBVAshr:
		v, ok := foldBV(t.Op, u(0), u(1), t.S.W)
		if !ok {
			v = 0
		}
		r = new(big.Int).SetUint64(v)
	case OpBVNot:
		r = new(big.Int).SetUint64(^u(0) & mask(t.S.W))
	case OpBVNeg:
		r = new(big.Int).SetUint64(-u(0) & mask(t.S.W))
	case OpBVUlt:
		r = b(u(0) < u(1))
	case OpBVUle:
		r = b(u(0) <= u(1))
	case OpBVSlt:
		w := t.Args[0].S.W
		r = b(sext(u(0), w) < sext(u(1), w))
	case OpBVSle:
		w := t.Args[0].S.W
		r = b(sext(u(0), w) <= sext(u(1), w))
	case OpZeroExt:
		r = evalTerm(t.Args[0], env, memo)
	case OpSignExt:
		r = new(big.Int).SetUint64(uint64(sext(u(0), t.Args[0].S.W)) & mask(t.S.W))
	case OpExtract:
		hi, lo := int(t.Val>>8), int(t.Val&0xff)
		r = new(big.Int).SetUint64((u(0) >> uint(lo)) & mask(hi-lo+1))
	case OpConcat:
		r = new(big.Int).SetUint64((u(0)<<uint(t.Args[1].S.W) | u(1)) & mask(t.S.W))
	case OpBV2Nat:
		r = evalTerm(t.Args[0], env, memo)
	case OpIntAdd:
		r = new(big.Int).Add(evalTerm(t.Args[0], env, memo), evalTerm(t.Args[1], env, memo))
	case OpIntSub:
		r = new(big.Int).Sub(evalTerm(t.Args[0], env, memo), evalTerm(t.Args[1], env, memo))
	case OpIntMul:
		r = new(big.Int).Mul(evalTerm(t.Args[0], env, memo), evalTerm(t.Args[1], env, memo))
	case OpIntNeg:
		r = new(big.Int).Neg(evalTerm(t.Args[0], env, memo))
	case OpIntLt:
		r = b(evalTerm(t.Args[0], env, memo).Cmp(evalTerm(t.Args[1], env, memo)) < 0)
	case OpIntLe:
		r = b(evalTerm(t.Args[0], env, memo).Cmp(evalTerm(t.Args[1], env, memo)) <= 0)
	default:
		panic("evalTerm: op")
	}
	memo[t] = r
	return r
}

// Rebuild constructs t's operator over new arguments (re-simplifying).
func (c *TermCtx) Rebuild(t *Term, a []*Term) *Term {
	switch t.Op {
	case OpNot:
		return c.Not(a[0])
	case OpAnd:
		return c.And(a[0], a[1])
	case OpOr:
		return c.Or(a[0], a[1])
	case OpEq:
		return c.Eq(a[0], a[1])
	case OpIte:
		return c.Ite(a[0], a[1], a[2])
	case OpBVAdd, OpBVSub, OpBVMul, OpBVUDiv, OpBVURem, OpBVSDiv, OpBVSRem, OpBVAnd, OpBVOr, OpBVXor, OpBVShl, OpBVLshr, OpBVAshr:
		return c.BVBin(t.Op, a[0], a[1])
	case OpBVNot, OpBVNeg:
		return c.BVUn(t.Op, a[0])
	case OpBVUlt, OpBVUle, OpBVSlt, OpBVSle:
		return c.BVCmp(t.Op, a[0], a[1])
	case OpZeroExt:
		return c.ZeroExt(a[0], t.S.W)
	case OpSignExt:
		return c.SignExt(a[0], t.S.W)
	case OpExtract:
		return c.Extract(a[0], int(t.Val>>8), int(t.Val&0xff))
	case OpConcat:
		return c.Concat(a[0], a[1])
	case OpBV2Nat:
		return c.BV2Nat(a[0])
	case OpIntAdd, OpIntSub, OpIntMul:
		return c.IntBin(t.Op, a[0], a[1])
	case OpIntNeg:
		return c.IntNeg(a[0])
	case OpIntLt, OpIntLe:
		return c.IntCmp(t.Op, a[0], a[1])
	}
	panic("Rebuild: op")
}
