package main

// The symbolic SSA interpreter: frames, instruction dispatch, calls, panics.
// Structure follows golang.org/x/tools/go/ssa/interp (the reference for go/ssa
// semantics); values may be symbolic (see value.go) and every decision on a
// symbolic value goes through Exec.branch (explore.go).

import (
	"fmt"
	"go/constant"
	"go/token"
	"go/types"
	"strings"

	"golang.org/x/tools/go/ssa"
)

// declined is returned by an external that wants the real body to run.
type declined struct{}

type targetPanic struct {
	v value // an iface
}

type abortKind int

const (
	abInfeasible  abortKind = iota // Assume(false) / contradiction
	abUnsupported                  // construct outside the engine's model
	abBound                        // step or depth budget exceeded (hang / overflow candidate)
	abEngine                       // interpreter bug
	abStop                         // path ended deliberately (after a reported violation)
)

type pathAbort struct {
	kind abortKind
	msg  string
}

func unsupported(msg string) pathAbort { return pathAbort{abUnsupported, msg} }

type deferred struct {
	fn    value
	args  []value
	instr *ssa.Defer
	tail  *deferred
}

type fnInfo struct {
	slot map[ssa.Value]int
	n    int
}

type frame struct {
	ex               *Exec
	caller           *frame
	fn               *ssa.Function
	info             *fnInfo
	block, prevBlock *ssa.BasicBlock
	env              []value
	locals           []value
	defers           *deferred
	result           value
	panicking        bool
	panic            interface{}
	phitemps         []value
	depth            int
}

func (p *Program) info(fn *ssa.Function) *fnInfo {
	p.infoMu.RLock()
	fi := p.infos[fn]
	p.infoMu.RUnlock()
	if fi != nil {
		return fi
	}
	fi = &fnInfo{slot: map[ssa.Value]int{}}
	add := func(v ssa.Value) {
		fi.slot[v] = fi.n
		fi.n++
	}
	for _, p := range fn.Params {
		add(p)
	}
	for _, fv := range fn.FreeVars {
		add(fv)
	}
	for _, b := range fn.Blocks {
		for _, ins := range b.Instrs {
			if v, ok := ins.(ssa.Value); ok {
				add(v)
			}
		}
	}
	p.infoMu.Lock()
	p.infos[fn] = fi
	p.infoMu.Unlock()
	return fi
}

func (fr *frame) get(key ssa.Value) value {
	switch key := key.(type) {
	case nil:
		return nil
	case *ssa.Function, *ssa.Builtin:
		return key
	case *ssa.Const:
		return fr.ex.constValue(key)
	case *ssa.Global:
		return fr.ex.globalAddr(key)
	}
	if i, ok := fr.info.slot[key]; ok {
		v := fr.env[i]
		if t, isT := v.(*Term); isT {
			return fr.ex.resolve(t)
		}
		return v
	}
	panic(pathAbort{abEngine, fmt.Sprintf("get: no value for %T: %v in %s", key, key.Name(), fr.fn)})
}

func (fr *frame) set(key ssa.Value, v value) {
	fr.env[fr.info.slot[key]] = v
}

func (ex *Exec) constValue(c *ssa.Const) value {
	if v, ok := ex.prog.constCache.Load(c); ok {
		return copyVal(v)
	}
	v := constValue0(c)
	ex.prog.constCache.Store(c, v)
	return copyVal(v)
}

func constValue0(c *ssa.Const) value {
	if c.Value == nil {
		return zero(c.Type()) // typed zero
	}
	if t, ok := c.Type().Underlying().(*types.Basic); ok {
		switch t.Kind() {
		case types.Bool, types.UntypedBool:
			return constant.BoolVal(c.Value)
		case types.Int, types.UntypedInt, types.Int8, types.Int16, types.Int32, types.UntypedRune, types.Int64:
			w, _, _ := intInfo(t)
			return I(uint64(c.Int64()) & mask(w))
		case types.Uint, types.Uint8, types.Uint16, types.Uint32, types.Uint64, types.Uintptr:
			w, _, _ := intInfo(t)
			return I(c.Uint64() & mask(w))
		case types.Float32:
			return float32(c.Float64())
		case types.Float64, types.UntypedFloat:
			return c.Float64()
		case types.Complex64, types.Complex128, types.UntypedComplex:
			return c.Complex128()
		case types.String, types.UntypedString:
			if c.Value.Kind() == constant.String {
				return constant.StringVal(c.Value)
			}
			return string(rune(c.Int64()))
		}
	}
	panic(fmt.Sprintf("constValue: %s", c))
}

// ---- panics raised by the interpreter as Go runtime errors ----

func (ex *Exec) runtimeErrorString(msg string) value {
	t := ex.prog.rtErrorString
	return iface{t: t, v: msg}
}

func (ex *Exec) panicRuntime(msg string) {
	ex.rtPanics++
	panic(targetPanic{ex.runtimeErrorString(msg)})
}

func (ex *Exec) panicBounds(idx value, n int, code int) {
	ex.rtPanics++
	t := ex.prog.rtBoundsError
	var x I
	if c, ok := idx.(I); ok {
		x = c
	}
	// runtime.boundsError{x int64, y int, signed bool, code boundsErrorCode(uint8)}
	panic(targetPanic{iface{t: t, v: structure{x, I(uint64(n)), true, I(uint64(code))}}})
}

// ---- defers ----

func (fr *frame) runDefer(d *deferred) {
	var ok bool
	defer func() {
		if !ok {
			r := recover()
			if _, isT := r.(targetPanic); !isT {
				panic(r) // path abort or engine bug: not catchable by the target
			}
			fr.panicking = true
			fr.panic = r
		}
	}()
	fr.ex.call(fr, d.instr.Pos(), d.fn, d.args)
	ok = true
}

func (fr *frame) runDefers() {
	for d := fr.defers; d != nil; d = d.tail {
		fr.runDefer(d)
	}
	fr.defers = nil
	if fr.panicking {
		panic(fr.panic)
	}
}

// ---- instruction dispatch ----

type continuation int

const (
	kNext continuation = iota
	kReturn
	kJump
)

func (ex *Exec) visitInstr(fr *frame, instr ssa.Instruction) continuation {
	switch instr := instr.(type) {
	case *ssa.DebugRef:
	case *ssa.UnOp:
		fr.set(instr, ex.unop(instr, fr.get(instr.X)))
	case *ssa.BinOp:
		fr.set(instr, ex.binop(instr.Op, instr.X.Type(), fr.get(instr.X), fr.get(instr.Y)))
	case *ssa.Call:
		fn, args := ex.prepareCall(fr, &instr.Call)
		fr.set(instr, ex.call(fr, instr.Pos(), fn, args))
	case *ssa.ChangeInterface:
		fr.set(instr, fr.get(instr.X))
	case *ssa.ChangeType:
		fr.set(instr, fr.get(instr.X))
	case *ssa.Convert:
		fr.set(instr, ex.conv(instr.Type(), instr.X.Type(), fr.get(instr.X)))
	case *ssa.SliceToArrayPointer:
		panic(unsupported("SliceToArrayPointer"))
	case *ssa.MakeInterface:
		fr.set(instr, iface{t: instr.X.Type(), v: fr.get(instr.X)})
	case *ssa.Extract:
		fr.set(instr, fr.get(instr.Tuple).(tuple)[instr.Index])
	case *ssa.Slice:
		fr.set(instr, ex.slice(instr.X.Type(), fr.get(instr.X), fr.get(instr.Low), fr.get(instr.High), fr.get(instr.Max)))
	case *ssa.Return:
		switch len(instr.Results) {
		case 0:
		case 1:
			fr.result = fr.get(instr.Results[0])
		default:
			res := make(tuple, len(instr.Results))
			for i, r := range instr.Results {
				res[i] = fr.get(r)
			}
			fr.result = res
		}
		fr.block = nil
		return kReturn
	case *ssa.RunDefers:
		fr.runDefers()
	case *ssa.Panic:
		panic(targetPanic{fr.get(instr.X)})
	case *ssa.Store:
		addr := fr.get(instr.Addr)
		switch a := addr.(type) {
		case *value:
			if a == nil {
				ex.panicRuntime("invalid memory address or nil pointer dereference")
			}
			store(a, fr.get(instr.Val))
		case *symRef:
			p := ex.concretizeRef(a)
			store(p, fr.get(instr.Val))
		default:
			panic(unsupported(fmt.Sprintf("store through %T", addr)))
		}
	case *ssa.If:
		cv := fr.get(instr.Cond)
		if ct, sym := cv.(*Term); sym && !ex.noMerge {
			if _, cached := ex.truthCache[ct]; !cached {
				ex.ifChain(fr, ct)
				return kJump
			}
		}
		succ := 1
		if ex.truth(cv) {
			succ = 0
		}
		fr.prevBlock, fr.block = fr.block, fr.block.Succs[succ]
		return kJump
	case *ssa.Jump:
		fr.prevBlock, fr.block = fr.block, fr.block.Succs[0]
		return kJump
	case *ssa.Defer:
		fn, args := ex.prepareCall(fr, &instr.Call)
		defers := &fr.defers
		if instr.DeferStack != nil {
			panic(unsupported("defer stack"))
		}
		*defers = &deferred{fn: fn, args: args, instr: instr, tail: *defers}
	case *ssa.Go:
		panic(unsupported("go statement"))
	case *ssa.MakeChan, *ssa.Send, *ssa.Select:
		panic(unsupported("channels"))
	case *ssa.Alloc:
		var addr *value
		if instr.Heap {
			addr = new(value)
			fr.set(instr, addr)
		} else {
			addr = fr.get(instr).(*value)
		}
		*addr = zero(deref(instr.Type()))
	case *ssa.MakeSlice:
		n := ex.concreteInt(fr.get(instr.Len), "make len")
		cp := ex.concreteInt(fr.get(instr.Cap), "make cap")
		// beyond 2^47 elements the Go runtime itself refuses (maxAlloc);
		// between 2^24 and that the allocation is real but out of the
		// interpreter's reach: a bound, not a panic
		if int64(n) < 0 || int64(n) > 1<<47 {
			ex.panicRuntime("makeslice: len out of range")
		}
		if int64(cp) < int64(n) || int64(cp) > 1<<47 {
			ex.panicRuntime("makeslice: cap out of range")
		}
		if int64(cp) > 1<<24 {
			panic(pathAbort{abBound, "make of more than 2^24 elements"})
		}
		s := make([]value, cp)
		tElt := instr.Type().Underlying().(*types.Slice).Elem()
		z := zero(tElt)
		for i := range s {
			s[i] = copyVal(z)
		}
		fr.set(instr, s[:n])
	case *ssa.MakeMap:
		fr.set(instr, newMap(instr.Type().Underlying().(*types.Map)))
	case *ssa.Range:
		fr.set(instr, ex.rangeIter(fr.get(instr.X), instr.X.Type()))
	case *ssa.Next:
		fr.set(instr, fr.get(instr.Iter).(iter).next(ex))
	case *ssa.FieldAddr:
		x := fr.get(instr.X)
		switch p := x.(type) {
		case *value:
			if p == nil {
				ex.panicRuntime("invalid memory address or nil pointer dereference")
			}
			s, ok := (*p).(structure)
			if !ok {
				panic(unsupported(fmt.Sprintf("FieldAddr on %T (%s) in %s", *p, instr.X.Type(), fr.fn)))
			}
			fr.set(instr, &s[instr.Field])
		case *symRef:
			fw, _, _ := intInfo(deref(instr.Type()))
			fr.set(instr, &symRef{elems: p.elems, idx: p.idx, path: append(append([]int{}, p.path...), instr.Field), w: fw})
		default:
			panic(unsupported(fmt.Sprintf("FieldAddr on %T", x)))
		}
	case *ssa.Field:
		fr.set(instr, fr.get(instr.X).(structure)[instr.Field])
	case *ssa.IndexAddr:
		x := fr.get(instr.X)
		idx := fr.get(instr.Index)
		var elems []value
		switch x := x.(type) {
		case []value:
			elems = x
		case *value:
			if x == nil {
				ex.panicRuntime("invalid memory address or nil pointer dereference")
			}
			elems = (*x).(array)
		default:
			panic(unsupported(fmt.Sprintf("IndexAddr on %T", x)))
		}
		_, isigned, _ := intInfo(instr.Index.Type())
		if it, ok := idx.(*Term); ok {
			ew, _, _ := intInfo(deref(instr.Type()))
			fr.set(instr, ex.symIndexAddr(elems, it, isigned, ew))
		} else {
			i := idx.(I)
			w, _, _ := intInfo(instr.Index.Type())
			if (isigned && sext(uint64(i), w) < 0) || uint64(i) >= uint64(len(elems)) {
				ex.panicBounds(I(uint64(sext(uint64(i), w))), len(elems), 0)
			}
			fr.set(instr, &elems[int(i)])
		}
	case *ssa.Index:
		x := fr.get(instr.X)
		idx := fr.get(instr.Index)
		switch x := x.(type) {
		case array:
			i := ex.indexIn(idx, instr.Index.Type(), len(x))
			fr.set(instr, copyVal(x[i]))
		case string, *SymStr:
			bs := strBytes(x)
			if it, ok := idx.(*Term); ok {
				_, isigned, _ := intInfo(instr.Index.Type())
				fr.set(instr, ex.loadRefByte(ex.symIndexAddr(bs, it, isigned, 8)))
			} else {
				i := ex.indexIn(idx, instr.Index.Type(), len(bs))
				fr.set(instr, bs[i])
			}
		case *Opaque:
			panic(unsupported("index of opaque string (" + x.why + ")"))
		default:
			panic(unsupported(fmt.Sprintf("Index on %T", x)))
		}
	case *ssa.Lookup:
		fr.set(instr, ex.lookup(instr, fr.get(instr.X), fr.get(instr.Index)))
	case *ssa.MapUpdate:
		m := fr.get(instr.Map).(*Map)
		if m == nil {
			panic(targetPanic{iface{t: ex.prog.rtPlainError, v: "assignment to entry in nil map"}})
		}
		m.insert(ex, fr.get(instr.Key), copyVal(fr.get(instr.Value)))
	case *ssa.TypeAssert:
		fr.set(instr, ex.typeAssert(instr, fr.get(instr.X).(iface)))
	case *ssa.MakeClosure:
		var bindings []value
		for _, b := range instr.Bindings {
			bindings = append(bindings, fr.get(b))
		}
		fr.set(instr, &closure{instr.Fn.(*ssa.Function), bindings})
	case *ssa.Phi:
		panic("unreachable: phi")
	default:
		panic(unsupported(fmt.Sprintf("instruction %T", instr)))
	}
	return kNext
}

// indexIn checks a concrete-or-symbolic index against n and returns it concretely.
func (ex *Exec) indexIn(idx value, t types.Type, n int) int {
	w, signed, _ := intInfo(t)
	if it, ok := idx.(*Term); ok {
		tc := ex.tc
		if signed {
			it = tc.SignExt(it, 64)
		} else {
			it = tc.ZeroExt(it, 64)
		}
		inb := tc.BVCmp(OpBVUlt, it, tc.BV(uint64(n), 64))
		if !ex.branchT(inb) {
			ex.panicBounds(I(0), n, 0)
		}
		return int(ex.concretize(it))
	}
	i := idx.(I)
	if (signed && sext(uint64(i), w) < 0) || uint64(i) >= uint64(n) {
		ex.panicBounds(I(uint64(sext(uint64(i), w))), n, 0)
	}
	return int(i)
}

func (ex *Exec) concreteInt(v value, what string) uint64 {
	switch v := v.(type) {
	case I:
		return uint64(v)
	case *Term:
		return ex.concretize(v)
	}
	panic(unsupported("concreteInt of " + fmt.Sprintf("%T", v) + " for " + what))
}

func (ex *Exec) prepareCall(fr *frame, call *ssa.CallCommon) (fn value, args []value) {
	v := fr.get(call.Value)
	if call.Method == nil {
		fn = v
	} else {
		recv := v.(iface)
		if recv.t == nil {
			ex.panicRuntime("invalid memory address or nil pointer dereference")
		}
		f := ex.prog.lookupMethod(recv.t, call.Method)
		if f == nil {
			panic(pathAbort{abEngine, fmt.Sprintf("method set for dynamic type %v does not contain %s", recv.t, call.Method)})
		}
		fn = f
		args = append(args, recv.v)
	}
	for _, arg := range call.Args {
		args = append(args, fr.get(arg))
	}
	return
}

func (p *Program) lookupMethod(t types.Type, meth *types.Func) *ssa.Function {
	return p.prog.LookupMethod(t, meth.Pkg(), meth.Name())
}

func (ex *Exec) call(caller *frame, pos token.Pos, fn value, args []value) value {
	switch fn := fn.(type) {
	case *ssa.Function:
		if fn == nil {
			ex.panicRuntime("invalid memory address or nil pointer dereference")
		}
		return ex.callSSA(caller, pos, fn, args, nil)
	case *closure:
		return ex.callSSA(caller, pos, fn.Fn, args, fn.Env)
	case *ssa.Builtin:
		return ex.callBuiltin(caller, pos, fn, args)
	}
	panic(pathAbort{abEngine, fmt.Sprintf("cannot call %T", fn)})
}

func (ex *Exec) callSSA(caller *frame, pos token.Pos, fn *ssa.Function, args []value, env []value) value {
	fr := &frame{ex: ex, caller: caller, fn: fn}
	if caller != nil {
		fr.depth = caller.depth + 1
	}
	if fr.depth > ex.maxDepthSeen {
		ex.maxDepthSeen = fr.depth
	}
	if fr.depth > ex.depthBudget {
		panic(pathAbort{abBound, "call depth budget exceeded in " + fn.String()})
	}
	if ex.skipInit(fn) {
		return nil
	}
	if fn.Parent() == nil {
		name := fn.String()
		if ext, ok := ex.prog.externals[name]; ok {
			r := ext(ex, fr, args)
			if _, no := r.(declined); !no {
				ex.noteFn(fn, true)
				return r
			}
		}
		if fn.Blocks == nil {
			// synthetic wrappers and instantiations are built lazily by go/ssa; a
			// function with no body at all is external (assembly / linkname).
			panic(unsupported("no body for function " + name))
		}
	}
	if fn.Blocks == nil {
		panic(unsupported("no body for function " + fn.String()))
	}
	ex.noteFn(fn, false)
	fr.info = ex.prog.info(fn)
	fr.env = make([]value, fr.info.n)
	fr.block = fn.Blocks[0]
	fr.locals = make([]value, len(fn.Locals))
	for i, l := range fn.Locals {
		fr.locals[i] = zero(deref(l.Type()))
		fr.set(l, &fr.locals[i])
	}
	for i, p := range fn.Params {
		fr.set(p, args[i])
	}
	for i, fv := range fn.FreeVars {
		fr.set(fv, env[i])
	}
	for fr.block != nil {
		ex.runFrame(fr)
	}
	return fr.result
}

func (ex *Exec) runFrame(fr *frame) {
	defer func() {
		if fr.block == nil {
			return // normal return
		}
		r := recover()
		if _, ok := r.(targetPanic); !ok {
			if _, isAbort := r.(pathAbort); isAbort {
				panic(r)
			}
			// engine bug: keep the Go stack for the report
			panic(pathAbort{abEngine, fmt.Sprintf("engine panic in %s: %v\n%s", fr.fn, r, shortStack())})
		}
		fr.panicking = true
		fr.panic = r
		fr.runDefers()
		fr.block = fr.fn.Recover
		if fr.block == nil {
			// recovered, function without named results: return zero values
			fr.result = zeroResults(fr.fn)
		}
	}()
	for {
		nonPhis := executePhis(fr)
		for _, instr := range nonPhis {
			ex.steps++
			if ex.steps > ex.stepBudget {
				panic(pathAbort{abBound, "step budget exceeded in " + fr.fn.String()})
			}
			if ex.visitInstr(fr, instr) == kReturn {
				return
			}
		}
	}
}

func zeroResults(fn *ssa.Function) value {
	res := fn.Signature.Results()
	switch res.Len() {
	case 0:
		return nil
	case 1:
		return zero(res.At(0).Type())
	}
	t := make(tuple, res.Len())
	for i := range t {
		t[i] = zero(res.At(i).Type())
	}
	return t
}

func executePhis(fr *frame) []ssa.Instruction {
	firstNonPhi := -1
	for i, instr := range fr.block.Instrs {
		if _, ok := instr.(*ssa.Phi); !ok {
			firstNonPhi = i
			break
		}
	}
	nonPhis := fr.block.Instrs[firstNonPhi:]
	if firstNonPhi > 0 {
		phis := fr.block.Instrs[:firstNonPhi]
		predIndex := -1
		for i, p := range fr.block.Preds {
			if p == fr.prevBlock {
				predIndex = i
				break
			}
		}
		fr.phitemps = fr.phitemps[:0]
		for _, phi := range phis {
			fr.phitemps = append(fr.phitemps, fr.get(phi.(*ssa.Phi).Edges[predIndex]))
		}
		for i, phi := range phis {
			fr.set(phi.(*ssa.Phi), fr.phitemps[i])
		}
	}
	return nonPhis
}

func (ex *Exec) doRecover(caller *frame) value {
	if caller != nil && !caller.panicking && caller.caller != nil && caller.caller.panicking {
		caller.caller.panicking = false
		p := caller.caller.panic
		caller.caller.panic = nil
		switch p := p.(type) {
		case targetPanic:
			ex.recovered++
			if i, ok := p.v.(iface); ok && i.t != nil && ex.prog.isRuntimeError(i.t) {
				ex.recoveredRuntime++
			}
			return p.v
		default:
			panic(pathAbort{abEngine, fmt.Sprintf("unexpected panic type %T in recover", p)})
		}
	}
	return iface{}
}

func shortStack() string {
	buf := make([]byte, 1<<14)
	n := runtimeStack(buf)
	lines := strings.Split(string(buf[:n]), "\n")
	if len(lines) > 40 {
		lines = lines[:40]
	}
	return strings.Join(lines, "\n")
}

// ---- type assertion ----

func (ex *Exec) typeAssert(instr *ssa.TypeAssert, itf iface) value {
	var v value
	ok := false
	if _, isIface := instr.AssertedType.Underlying().(*types.Interface); isIface {
		v = itf
		if itf.t != nil {
			ok = ex.prog.implements(itf.t, instr.AssertedType.Underlying().(*types.Interface))
		}
	} else {
		if itf.t != nil && types.Identical(itf.t, instr.AssertedType) {
			v = itf.v
			ok = true
		}
	}
	if !ok {
		if !instr.CommaOk {
			ex.rtPanics++
			// *runtime.TypeAssertionError; fields are runtime-internal, keep them nil
			panic(targetPanic{iface{t: ex.prog.rtTypeAssertionErrorPtr, v: ex.newTypeAssertionError()}})
		}
		v = zero(instr.AssertedType)
	}
	if instr.CommaOk {
		return tuple{v, ok}
	}
	return v
}

func (ex *Exec) newTypeAssertionError() value {
	z := zero(deref(ex.prog.rtTypeAssertionErrorPtr))
	p := new(value)
	*p = z
	return p
}

// ---- multiway branch compression ----
//
// go/ssa lowers `case 'a', 'b', 'c':` and `x == 1 || x == 2` / `lo <= c && c <= hi`
// to chains of two-instruction blocks. Following them one If at a time makes
// one path per alternative although all alternatives reach the same block in
// the same state. ifChain folds such a chain into ONE solver-decided branch on
// the disjunction / conjunction of the conditions. Only side-effect-free,
// non-faulting instructions are evaluated ahead, and only when the shared
// target's phi nodes do not distinguish the merged edges, so the set of
// reachable (block, state) pairs is unchanged.

func pureForMerge(ins ssa.Instruction) bool {
	switch ins := ins.(type) {
	case *ssa.BinOp:
		switch ins.Op {
		case token.QUO, token.REM, token.SHL, token.SHR:
			return false
		}
		_, isBasic := ins.X.Type().Underlying().(*types.Basic)
		return isBasic
	case *ssa.UnOp:
		return ins.Op == token.NOT || ins.Op == token.SUB || ins.Op == token.XOR
	case *ssa.Convert:
		_, _, a := intInfo(ins.Type())
		_, _, b := intInfo(ins.X.Type())
		return a && b
	case *ssa.ChangeType, *ssa.DebugRef:
		return true
	}
	return false
}

// samePhiEdges reports whether every phi of blk receives the same SSA value
// from predecessors p and q.
func samePhiEdges(blk, p, q *ssa.BasicBlock) bool {
	pi, qi := -1, -1
	for i, x := range blk.Preds {
		if x == p && pi < 0 {
			pi = i
		}
		if x == q && qi < 0 {
			qi = i
		}
	}
	if pi < 0 || qi < 0 {
		return false
	}
	for _, ins := range blk.Instrs {
		phi, ok := ins.(*ssa.Phi)
		if !ok {
			break
		}
		a, b := phi.Edges[pi], phi.Edges[qi]
		if a == b {
			continue
		}
		ca, ok1 := a.(*ssa.Const)
		cb, ok2 := b.(*ssa.Const)
		if ok1 && ok2 && ca.Value != nil && cb.Value != nil && ca.Value.ExactString() == cb.Value.ExactString() && types.Identical(ca.Type(), cb.Type()) {
			continue
		}
		return false
	}
	return true
}

// chainBlock checks that blk is [pure*, If] with a single predecessor.
func chainBlock(blk *ssa.BasicBlock) (*ssa.If, bool) {
	if len(blk.Preds) != 1 || len(blk.Instrs) == 0 || len(blk.Instrs) > 6 {
		return nil, false
	}
	last, ok := blk.Instrs[len(blk.Instrs)-1].(*ssa.If)
	if !ok {
		return nil, false
	}
	for _, ins := range blk.Instrs[:len(blk.Instrs)-1] {
		if !pureForMerge(ins) {
			return nil, false
		}
	}
	return last, true
}

func (ex *Exec) ifChain(fr *frame, cond *Term) {
	tc := ex.tc
	cur := fr.block
	tBlk, fBlk := cur.Succs[0], cur.Succs[1]
	tPrev, fPrev := cur, cur
	evalBlock := func(blk *ssa.BasicBlock) (*Term, bool) {
		for _, ins := range blk.Instrs[:len(blk.Instrs)-1] {
			ex.steps++
			ex.visitInstr(fr, ins)
		}
		c := fr.get(blk.Instrs[len(blk.Instrs)-1].(*ssa.If).Cond)
		switch c := c.(type) {
		case bool:
			return tc.Bool(c), true
		case *Term:
			return c, true
		}
		return nil, false
	}
	for iter := 0; iter < 64; iter++ {
		// OR-chain: the false successor tests again and shares our true target
		if nxt, ok := chainBlock(fBlk); ok && fBlk != tBlk && fBlk.Succs[0] == tBlk && fBlk != cur && samePhiEdges(tBlk, tPrev, fBlk) {
			c2, ok := evalBlock(fBlk)
			if !ok {
				break
			}
			_ = nxt
			cond = tc.Or(cond, c2)
			fPrev = fBlk
			fBlk = fBlk.Succs[1]
			continue
		}
		// AND-chain: the true successor tests again and shares our false target
		if _, ok := chainBlock(tBlk); ok && tBlk != fBlk && tBlk.Succs[1] == fBlk && tBlk != cur && samePhiEdges(fBlk, fPrev, tBlk) {
			c2, ok := evalBlock(tBlk)
			if !ok {
				break
			}
			cond = tc.And(cond, c2)
			tPrev = tBlk
			tBlk = tBlk.Succs[0]
			continue
		}
		break
	}
	if ex.truth(fromTerm(cond)) {
		fr.prevBlock, fr.block = tPrev, tBlk
	} else {
		fr.prevBlock, fr.block = fPrev, fBlk
	}
}
