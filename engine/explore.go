package main

// Path exploration by deterministic re-execution: a path is identified by its
// vector of decisions at symbolic fork points. A worker replays a prefix
// (asserting the recorded conditions without querying), then at every new fork
// asks the solver which sides are feasible, follows one and queues the other.

import (
	"fmt"
	"os"
	"runtime"
	"sort"
	"strings"
	"sync"
	"sync/atomic"
	"time"

	"golang.org/x/tools/go/ssa"
)

var memLimitBytes uint64 = 40 << 30

var printPaths = os.Getenv("SYMGO_PRINTPATHS") != ""

var traceBranches = os.Getenv("SYMGO_TRACEBR") != ""

func runtimeStack(buf []byte) int { return runtime.Stack(buf, false) }

type decKind uint8

const (
	dBranch  decKind = iota // val: 0/1 taken side, both sides were feasible (or unknown)
	dForced                 // val: 0/1, only that side feasible — nothing asserted
	dConcr                  // val: chosen concrete value for the next concretisation step
	dBind                   // variable Aux has the unique value Val under the path condition
	dBindEnd                // end of a run of dBind entries
)

type Decision struct {
	K   decKind
	Val uint64
	Aux uint32
}

type Violation struct {
	Harness string            `json:"harness"`
	Label   string            `json:"label"`
	Kind    string            `json:"kind"` // assert | panic | bound
	Inputs  map[string]uint64 `json:"inputs"`
	Detail  string            `json:"detail,omitempty"`
	Known   string            `json:"known,omitempty"`
	Events  []string          `json:"events,omitempty"`
}

type PathResult struct {
	Harness   string
	Outcome   string // ok | panic | bound | unsupported | engine | infeasible | stopped
	Detail    string
	Events    []string
	Inputs    map[string]uint64
	Steps     int64
	Depth     int
	NDec      int
	Symbolic  bool
	Viol      []Violation
	KnownHits []string
	NoReplay  bool // an uninterpreted predicate decided this path: native result may differ
}

type Exec struct {
	prog    *Program
	harness *ssa.Function
	tc      *TermCtx
	sol     *Solver

	prefix []Decision
	pos    int
	decs   []Decision
	queue  *workQueue

	globals map[*ssa.Global]*value

	steps        int64
	stepBudget   int64
	depthBudget  int
	maxDepthSeen int

	truthCache map[*Term]bool
	varNames   []string // index → harness-level name
	varSeq     map[string]int
	events     []string
	obsTerms   []obsItem
	viol       []Violation
	knownPreds []knownPred
	knownHits  []string

	cfg          *RunConfig
	bindings     map[*Term]*Term
	boundMask    uint64
	boundBig     bool
	substMemo    map[*Term]*Term
	noMerge      bool
	stubJSON     bool
	addrs        map[*value][]value
	addrVars     [][]*Term
	addrOwner    map[*Term]int
	poolReuse    int
	policy       harnessPolicy
	unknownForks int
	obligations  int
	discharged   int
	sharedInit   bool
	inInit       bool

	mapOrder  int
	poolMode  int
	pools     map[*value][]value
	syncMaps  map[*value]*syncMapModel
	mapRanges int

	rtPanics         int
	recovered        int
	recoveredRuntime int
	symbolicForks    int
	fnSeen           map[*ssa.Function]bool
	extSeen          map[string]bool
	tier             string
	addrCtr          int
	uninterp         map[string]*Term
}

type obsItem struct {
	idx  int // index into events
	vals []value
}

type knownPred struct {
	name string
	cond value // bool or *Term
}

func (ex *Exec) noteFn(fn *ssa.Function, external bool) {
	if ex.fnSeen[fn] {
		return
	}
	ex.fnSeen[fn] = true
	if external {
		ex.extSeen[fn.String()] = true
	}
}

// truth decides a boolean value, forking when symbolic.
func (ex *Exec) truth(v value) bool {
	switch v := v.(type) {
	case bool:
		return v
	case *Term:
		return ex.branchT(v)
	}
	panic(pathAbort{abEngine, fmt.Sprintf("truth of %T", v)})
}

func (ex *Exec) assertPC(t *Term) {
	ex.sol.Assert(ex.tc, t)
	ex.noteTrue(t)
}

func (ex *Exec) noteTrue(t *Term) {
	if t.Op == OpEq {
		a, b := t.Args[0], t.Args[1]
		if a.Op == OpConst {
			a, b = b, a
		}
		if a.Op == OpVar && b.Op == OpConst && b.S.K == SBV {
			ex.bind(a, b)
		}
	} else if t.Op == OpVar && t.S.K == SBool {
		ex.bind(t, ex.tc.tt)
	} else if t.Op == OpNot && t.Args[0].Op == OpVar {
		ex.bind(t.Args[0], ex.tc.ff)
	}
	ex.truthCache[t] = true
	ex.truthCache[ex.tc.Not(t)] = false
	// conjunctions (and negated disjunctions): record the parts too
	if t.Op == OpAnd {
		for _, a := range t.Args {
			ex.noteTrue(a)
		}
	} else if t.Op == OpNot && t.Args[0].Op == OpOr {
		for _, a := range t.Args[0].Args {
			ex.noteTrue(ex.tc.Not(a))
		}
	}
}

func (ex *Exec) bind(v *Term, c *Term) {
	if _, ok := ex.bindings[v]; ok {
		return
	}
	ex.bindings[v] = c
	if v.Val < 64 {
		ex.boundMask |= 1 << uint(v.Val)
	} else {
		ex.boundBig = true
	}
	ex.substMemo = nil
}

// resolve rewrites a term under the variable bindings implied by the path
// condition (v == const facts), folding what becomes concrete.
func (ex *Exec) resolve(t *Term) value {
	if t.Op == OpConst {
		return fromTerm(t)
	}
	if t.supp&ex.boundMask == 0 && !(t.suppBig && ex.boundBig) {
		return t
	}
	return fromTerm(ex.subst(t))
}

func (ex *Exec) subst(t *Term) *Term {
	if t.Op == OpConst {
		return t
	}
	if t.supp&ex.boundMask == 0 && !(t.suppBig && ex.boundBig) {
		return t
	}
	if t.Op == OpVar {
		if c, ok := ex.bindings[t]; ok {
			return c
		}
		return t
	}
	if ex.substMemo == nil {
		ex.substMemo = map[*Term]*Term{}
	}
	if r, ok := ex.substMemo[t]; ok {
		return r
	}
	changed := false
	na := make([]*Term, len(t.Args))
	for i, a := range t.Args {
		na[i] = ex.subst(a)
		if na[i] != a {
			changed = true
		}
	}
	r := t
	if changed {
		r = ex.tc.Rebuild(t, na)
	}
	ex.substMemo[t] = r
	return r
}

func termVars(t *Term, seen map[*Term]bool, out *[]*Term) {
	if seen[t] {
		return
	}
	seen[t] = true
	if t.Op == OpVar {
		*out = append(*out, t)
		return
	}
	for _, a := range t.Args {
		termVars(a, seen, out)
	}
}

// bindUnique is called after a compound term was concretised: variables of
// the term that now have a unique value under the path condition are bound,
// so that everything computed from them folds to constants. The outcome is
// recorded in the decision vector (replays must not depend on solver luck).
func (ex *Exec) bindUnique(t *Term) {
	if ex.pos < len(ex.prefix) {
		for ex.pos < len(ex.prefix) {
			d := ex.prefix[ex.pos]
			if d.K != dBind && d.K != dBindEnd {
				panic(pathAbort{abEngine, "decision vector out of sync (expected bind)"})
			}
			ex.pos++
			ex.decs = append(ex.decs, d)
			if d.K == dBindEnd {
				return
			}
			v := ex.tc.vars[d.Aux]
			if v.S.K == SBool {
				ex.bind(v, ex.tc.Bool(d.Val != 0))
			} else {
				ex.bind(v, ex.tc.BV(d.Val, v.S.W))
			}
		}
		return
	}
	var vars []*Term
	termVars(t, map[*Term]bool{}, &vars)
	if len(vars) <= 8 {
		tc := ex.tc
		for _, v := range vars {
			if _, ok := ex.bindings[v]; ok {
				continue
			}
			ex.sol.send("(push 1)\n")
			r := ex.sol.CheckSat()
			var val uint64
			ok := false
			if r == RSat {
				ex.sol.send("(get-value (" + v.Name + "))\n")
				val, ok = parseSingleValue(ex.sol.readBalanced())
			}
			ex.sol.send("(pop 1)\n")
			if !ok {
				continue
			}
			var c *Term
			if v.S.K == SBool {
				c = tc.Bool(val != 0)
			} else {
				c = tc.BV(val, v.S.W)
			}
			if ex.sol.Check(tc, tc.Not(tc.Eq(v, c))) == RUnsat {
				ex.bind(v, c)
				ex.decs = append(ex.decs, Decision{K: dBind, Val: val, Aux: uint32(v.Val)})
			}
		}
	}
	ex.decs = append(ex.decs, Decision{K: dBindEnd})
}

// branchT decides symbolic condition c on the current path.
func (ex *Exec) branchT(c *Term) bool {
	if c.IsConst() {
		return c.Val != 0
	}
	if b, ok := ex.truthCache[c]; ok {
		return b
	}
	ex.symbolicForks++
	if ex.pos < len(ex.prefix) {
		d := ex.prefix[ex.pos]
		ex.pos++
		ex.decs = append(ex.decs, d)
		if d.K != dBranch && d.K != dForced {
			panic(pathAbort{abEngine, "decision vector out of sync (expected branch)"})
		}
		taken := d.Val != 0
		if d.K == dBranch {
			if taken {
				ex.assertPC(c)
			} else {
				ex.assertPC(ex.tc.Not(c))
			}
		} else if taken {
			ex.noteTrue(c)
		} else {
			ex.noteTrue(ex.tc.Not(c))
		}
		return taken
	}
	if traceBranches {
		fmt.Fprintf(os.Stderr, "BR %s\n", ex.sol.termText(ex.tc, c))
	}
	rT := ex.sol.Check(ex.tc, c)
	if rT == RUnsat {
		ex.decs = append(ex.decs, Decision{K: dForced, Val: 0})
		ex.noteTrue(ex.tc.Not(c))
		return false
	}
	rF := ex.sol.Check(ex.tc, ex.tc.Not(c))
	if rF == RUnsat {
		ex.decs = append(ex.decs, Decision{K: dForced, Val: 1})
		ex.noteTrue(c)
		return true
	}
	if rT == RUnknown || rF == RUnknown {
		ex.unknownForks++
	}
	// both feasible (or unknown): follow true, queue false
	alt := make([]Decision, len(ex.decs)+1)
	copy(alt, ex.decs)
	alt[len(ex.decs)] = Decision{K: dBranch, Val: 0}
	ex.queue.push(ex.harness, alt)
	ex.decs = append(ex.decs, Decision{K: dBranch, Val: 1})
	ex.assertPC(c)
	return true
}

// concretize picks a concrete value for t by forking over its feasible values.
func (ex *Exec) concretize(t *Term) uint64 {
	if t.IsConst() {
		return t.Val
	}
	tc := ex.tc
	if t.Op != OpVar {
		// concretise the variables the term depends on, one at a time: cheap
		// single-variable decisions instead of value enumeration over a
		// compound (possibly multiplicative) term
		if r := ex.subst(t); r.IsConst() {
			return r.Val
		}
		var vars []*Term
		termVars(t, map[*Term]bool{}, &vars)
		if len(vars) <= 10 {
			for _, v := range vars {
				if _, bound := ex.bindings[v]; !bound {
					ex.concretize(v)
				}
			}
			if r := ex.subst(t); r.IsConst() {
				return r.Val
			}
		}
	}
	for iter := 0; ; iter++ {
		if iter > 4096 {
			panic(pathAbort{abBound, "concretisation over more than 4096 values"})
		}
		var v uint64
		if ex.pos < len(ex.prefix) {
			d := ex.prefix[ex.pos]
			if d.K != dConcr {
				panic(pathAbort{abEngine, "decision vector out of sync (expected concretisation)"})
			}
			ex.pos++
			ex.decs = append(ex.decs, d)
			v = d.Val
		} else {
			// ask for any model value
			ex.sol.send("(push 1)\n")
			r := ex.sol.CheckSat()
			if r != RSat {
				ex.sol.send("(pop 1)\n")
				if r == RUnsat {
					panic(pathAbort{abInfeasible, "path condition unsatisfiable at concretisation"})
				}
				panic(pathAbort{abUnsupported, "solver unknown at concretisation"})
			}
			txt := ex.sol.termText(tc, t)
			ex.sol.send("(get-value (" + txt + "))\n")
			line := ex.sol.readBalanced()
			ex.sol.send("(pop 1)\n")
			val, ok := parseSingleValue(line)
			if !ok {
				panic(pathAbort{abEngine, "cannot parse get-value answer: " + line})
			}
			v = val
			ex.decs = append(ex.decs, Decision{K: dConcr, Val: v})
		}
		var eq *Term
		if t.S.K == SBool {
			eq = tc.Eq(t, tc.Bool(v != 0))
		} else {
			eq = tc.Eq(t, tc.BV(v, t.S.W))
		}
		if ex.branchT(eq) {
			return v
		}
	}
}

type workItem struct {
	h      *ssa.Function
	prefix []Decision
}

type workQueue struct {
	mu      sync.Mutex
	cond    *sync.Cond
	items   []workItem
	active  int
	closed  bool
	pushed  int64
	maxLen  int
	stopped atomic.Bool
}

func newWorkQueue() *workQueue {
	q := &workQueue{}
	q.cond = sync.NewCond(&q.mu)
	return q
}

func (q *workQueue) push(h *ssa.Function, p []Decision) {
	q.mu.Lock()
	q.items = append(q.items, workItem{h, p})
	q.pushed++
	if len(q.items) > q.maxLen {
		q.maxLen = len(q.items)
	}
	q.mu.Unlock()
	q.cond.Signal()
}

// pop blocks until an item is available or all workers are idle.
func (q *workQueue) pop() (workItem, bool) {
	q.mu.Lock()
	defer q.mu.Unlock()
	for {
		if q.stopped.Load() {
			return workItem{}, false
		}
		if n := len(q.items); n > 0 {
			it := q.items[n-1]
			q.items = q.items[:n-1]
			q.active++
			return it, true
		}
		if q.active == 0 {
			q.cond.Broadcast()
			return workItem{}, false
		}
		q.cond.Wait()
	}
}

func (q *workQueue) done() {
	q.mu.Lock()
	q.active--
	if q.active == 0 && len(q.items) == 0 {
		q.cond.Broadcast()
	}
	q.mu.Unlock()
}

// ---- running one path ----

type RunConfig struct {
	Tier        string
	StepBudget  int64
	DepthBudget int
	Workers     int
	SolverName  string
	TimeoutMs   int
	MaxPaths    int64
	Deadline    time.Time
	KnownActive map[string]bool
	Trace       bool
	Progress    bool
}

func (p *Program) runPath(sol *Solver, q *workQueue, it workItem, cfg *RunConfig) (res PathResult) {
	sol.Reset()
	ex := &Exec{
		prog: p, harness: it.h, tc: NewTermCtx(), sol: sol,
		prefix: it.prefix, queue: q,
		globals:     map[*ssa.Global]*value{},
		stepBudget:  cfg.StepBudget,
		depthBudget: cfg.DepthBudget,
		truthCache:  map[*Term]bool{},
		varSeq:      map[string]int{},
		pools:       map[*value][]value{},
		syncMaps:    map[*value]*syncMapModel{},
		fnSeen:      map[*ssa.Function]bool{},
		extSeen:     map[string]bool{},
		tier:        cfg.Tier,
		uninterp:    map[string]*Term{},
		bindings:    map[*Term]*Term{},
	}
	ex.cfg = cfg
	res.Harness = it.h.Name()
	defer func() {
		r := recover()
		res.Steps = ex.steps
		res.Depth = ex.maxDepthSeen
		res.NDec = len(ex.decs)
		res.Symbolic = ex.symbolicForks > 0 || len(ex.tc.vars) > 0
		res.Events = ex.events
		res.KnownHits = ex.knownHits
		res.NoReplay = len(ex.uninterp) > 0
		switch r := r.(type) {
		case nil:
			res.Outcome = "ok"
		case targetPanic:
			res.Outcome = "panic"
			res.Detail = ex.describePanic(r.v)
		case pathAbort:
			switch r.kind {
			case abInfeasible:
				res.Outcome = "infeasible"
			case abUnsupported:
				res.Outcome = "unsupported"
			case abBound:
				res.Outcome = "bound"
			case abStop:
				res.Outcome = "stopped"
			default:
				res.Outcome = "engine"
			}
			res.Detail = r.msg
		default:
			res.Outcome = "engine"
			res.Detail = fmt.Sprintf("%v\n%s", r, shortStack())
		}
		ex.finishPath(&res)
		p.mergeCoverage(ex)
	}()
	// package initialisation of the repository packages (per path: their
	// globals are per-path state), then the harness.
	ex.initPackages(it.h.Pkg)
	ex.steps = 0
	ex.callSSA(nil, 0, it.h, nil, nil)
	return
}

// finishPath obtains the model of the path, resolves observed values and the
// engine-level obligations (no escaped panic, no exceeded bound).
func (ex *Exec) finishPath(res *PathResult) {
	if res.Outcome == "infeasible" {
		return
	}
	// engine-level obligations
	harnessPolicy := ex.policy
	switch res.Outcome {
	case "panic":
		if !harnessPolicy.allowPanic {
			ex.reportEngineViolation(res, "panic", "panic-escaped", res.Detail)
		}
	case "bound":
		if harnessPolicy.boundIsViolation {
			ex.reportEngineViolation(res, "bound", "bound-exceeded", res.Detail)
		}
	}
	// model for this path
	ex.sol.send("(push 1)\n")
	r := ex.sol.CheckSat()
	if r == RSat {
		m, err := ex.sol.Model(ex.tc)
		if err == nil {
			res.Inputs = ex.nameInputs(m)
			ex.resolveObserves(m, res)
		} else {
			res.Detail += " [model error: " + err.Error() + "]"
		}
	} else if r == RUnsat && res.Outcome != "stopped" {
		res.Outcome = "infeasible"
	}
	ex.sol.send("(pop 1)\n")
	res.Viol = ex.viol
	res.Events = ex.events
	res.KnownHits = ex.knownHits // engine-level obligations may have added hits
}

func (ex *Exec) nameInputs(m map[string]uint64) map[string]uint64 {
	out := map[string]uint64{}
	for i, v := range ex.tc.vars {
		if i < len(ex.varNames) && !strings.HasPrefix(ex.varNames[i], "!") {
			out[ex.varNames[i]] = m[v.Name]
		}
	}
	return out
}

func (ex *Exec) smtEnv(m map[string]uint64) map[string]uint64 { return m }

func (ex *Exec) resolveObserves(m map[string]uint64, res *PathResult) {
	for _, o := range ex.obsTerms {
		var parts []string
		for _, v := range o.vals {
			parts = append(parts, ex.renderUnder(v, m))
		}
		ex.events[o.idx] += strings.Join(parts, ",")
	}
}

// renderUnder prints a value with symbolic parts evaluated under model m, in
// the format zzverif.Observe uses natively.
func (ex *Exec) renderUnder(v value, m map[string]uint64) string {
	memo := map[*Term]*bigInt{}
	_ = memo
	switch v := v.(type) {
	case bool:
		return fmt.Sprint(v)
	case I:
		return fmt.Sprint(uint64(v))
	case *Term:
		r := evalTerm(v, m, map[*Term]*bigInt{})
		if v.S.K == SBool {
			return fmt.Sprint(r.Sign() != 0)
		}
		return r.String()
	case string:
		return fmt.Sprintf("%q", v)
	case *SymStr:
		bs := make([]byte, len(v.b))
		for i, b := range v.b {
			switch b := b.(type) {
			case I:
				bs[i] = byte(b)
			case *Term:
				bs[i] = byte(evalTerm(b, m, map[*Term]*bigInt{}).Uint64())
			}
		}
		return fmt.Sprintf("%q", string(bs))
	case []value:
		bs := make([]byte, len(v))
		for i, b := range v {
			switch b := b.(type) {
			case I:
				bs[i] = byte(b)
			case *Term:
				bs[i] = byte(evalTerm(b, m, map[*Term]*bigInt{}).Uint64())
			default:
				return "<slice>"
			}
		}
		return fmt.Sprintf("%q", string(bs))
	case *Opaque:
		return "<opaque>"
	}
	return fmt.Sprintf("<%T>", v)
}

func (ex *Exec) reportEngineViolation(res *PathResult, kind, label, detail string) {
	// Is the path feasible outside every active known-finding predicate?
	tc := ex.tc
	notKnown := tc.tt
	var names []string
	for _, k := range ex.knownPreds {
		if !ex.cfg.KnownActive[k.name] {
			continue
		}
		notKnown = tc.And(notKnown, tc.Not(ex.toTerm(k.cond, 0)))
		names = append(names, k.name)
	}
	ex.sol.send("(push 1)\n")
	ex.sol.Assert(tc, notKnown)
	r := ex.sol.CheckSat()
	if r == RSat || r == RUnknown {
		m, _ := ex.sol.Model(tc)
		if r == RUnknown {
			m = nil
		}
		v := Violation{Harness: ex.harness.Name(), Label: label, Kind: kind, Detail: detail}
		if m != nil {
			v.Inputs = ex.nameInputs(m)
		}
		ex.viol = append(ex.viol, v)
	} else {
		ex.knownHits = append(ex.knownHits, strings.Join(names, "|")+": "+label)
	}
	ex.sol.send("(pop 1)\n")
}

func (ex *Exec) describePanic(v value) string {
	i, ok := v.(iface)
	if !ok || i.t == nil {
		return "panic(nil)"
	}
	s := "panic(" + i.t.String() + ")"
	switch x := i.v.(type) {
	case string:
		s += " " + x
	case structure:
		if ex.prog.isRuntimeError(i.t) {
			s += " [runtime error]"
		}
	}
	return s
}

// ---- coverage bookkeeping shared by all paths of a run ----

type Coverage struct {
	mu        sync.Mutex
	Funcs     map[string]int // function → instruction count
	Externals map[string]int
	MaxSteps  int64
	MaxDepth  int
}

func (p *Program) mergeCoverage(ex *Exec) {
	c := p.cov
	c.mu.Lock()
	for fn := range ex.fnSeen {
		name := fn.String()
		if ex.extSeen[name] {
			c.Externals[name]++
			continue
		}
		if _, ok := c.Funcs[name]; !ok {
			n := 0
			for _, b := range fn.Blocks {
				n += len(b.Instrs)
			}
			c.Funcs[name] = n
		}
	}
	if ex.steps > c.MaxSteps {
		c.MaxSteps = ex.steps
	}
	if ex.maxDepthSeen > c.MaxDepth {
		c.MaxDepth = ex.maxDepthSeen
	}
	c.mu.Unlock()
}

// ---- exploring a set of harnesses ----

type RunStats struct {
	Paths       int64
	ByOutcome   map[string]int64
	Queries     int
	Sat, Unsat  int
	Unknown     int
	SolverErr   int
	SolverTime  time.Duration
	Forks       int64
	Results     []PathResult // kept: violations, non-ok outcomes and a sample of ok
	AllInputs   []PathResult // sample for witness replay
	ReachLabels map[string]int64
	Symbolic    int64
	Truncated   bool
	MaxQueue    int
	KnownHits   map[string]int64
	NoReplay    int64
}

func (p *Program) explore(harnesses []*ssa.Function, cfg *RunConfig) *RunStats {
	q := newWorkQueue()
	for _, h := range harnesses {
		q.push(h, nil)
	}
	st := &RunStats{ByOutcome: map[string]int64{}, ReachLabels: map[string]int64{}, KnownHits: map[string]int64{}}
	var mu sync.Mutex
	var wg sync.WaitGroup
	var npaths atomic.Int64
	for w := 0; w < cfg.Workers; w++ {
		wg.Add(1)
		go func(w int) {
			defer wg.Done()
			sol, err := NewSolver(cfg.SolverName, cfg.TimeoutMs)
			if err != nil {
				panic(err)
			}
			defer func() {
				mu.Lock()
				st.Queries += sol.Queries
				st.Sat += sol.Sat
				st.Unsat += sol.Unsat
				st.Unknown += sol.Unknown
				st.SolverErr += sol.Errors
				st.SolverTime += sol.Time
				mu.Unlock()
				sol.Close()
			}()
			for {
				it, ok := q.pop()
				if !ok {
					return
				}
				tp := time.Now()
				q0, st0 := sol.Queries, sol.Time
				res := p.runPath(sol, q, it, cfg)
				if d := time.Since(tp); d > 2*time.Second && cfg.Progress {
					fmt.Fprintf(os.Stderr, "slow path %.1fs steps=%d decs=%d queries=%d solver=%.1fs outcome=%s inputs=%s\n", d.Seconds(), res.Steps, res.NDec, sol.Queries-q0, (sol.Time - st0).Seconds(), res.Outcome, renderInputs(res.Inputs))
				}
				n := npaths.Add(1)
				if printPaths {
					fmt.Fprintf(os.Stderr, "PATH %s %s %s\n", res.Harness, res.Outcome, renderInputs(res.Inputs))
				}
				mu.Lock()
				st.Paths++
				st.ByOutcome[res.Outcome]++
				if res.Symbolic {
					st.Symbolic++
				}
				for _, e := range res.Events {
					if strings.HasPrefix(e, "reach:") {
						st.ReachLabels[res.Harness+"/"+e[6:]]++
					}
				}
				for _, k := range res.KnownHits {
					st.KnownHits[k]++
				}
				keep := len(res.Viol) > 0 || (res.Outcome != "ok" && res.Outcome != "infeasible" && res.Outcome != "stopped")
				if keep && len(st.Results) < 2000 {
					st.Results = append(st.Results, res)
				}
				if res.NoReplay {
					st.NoReplay++
				}
				if (res.Outcome == "ok" || res.Outcome == "panic" || res.Outcome == "stopped") && res.Inputs != nil && !res.NoReplay {
					// reservoir of witnesses for native replay
					if len(st.AllInputs) < cfg.witnessCap() {
						st.AllInputs = append(st.AllInputs, res)
					} else {
						j := p.rng.Int63n(st.Paths)
						if int(j) < len(st.AllInputs) {
							st.AllInputs[j] = res
						}
					}
				}
				mu.Unlock()
				q.done()
				if (cfg.MaxPaths > 0 && n >= cfg.MaxPaths) || (!cfg.Deadline.IsZero() && time.Now().After(cfg.Deadline)) {
					st.Truncated = true
					q.stopped.Store(true)
					q.cond.Broadcast()
					return
				}
			}
		}(w)
	}
	stopTick := make(chan struct{})
	{
		go func() {
			t0 := time.Now()
			for {
				select {
				case <-stopTick:
					return
				case <-time.After(5 * time.Second):
					var ms runtime.MemStats
					runtime.ReadMemStats(&ms)
					if ms.HeapAlloc > memLimitBytes {
						fmt.Fprintf(os.Stderr, "symgo: heap %d MB exceeds the limit, stopping exploration (inconclusive)\n", ms.HeapAlloc>>20)
						st.Truncated = true
						q.stopped.Store(true)
						q.cond.Broadcast()
					}
					if !cfg.Progress {
						continue
					}
					q.mu.Lock()
					ql, act := len(q.items), q.active
					q.mu.Unlock()
					mu.Lock()
					fmt.Fprintf(os.Stderr, "[%4.0fs] paths=%d queue=%d active=%d outcomes=%v\n", time.Since(t0).Seconds(), st.Paths, ql, act, st.ByOutcome)
					mu.Unlock()
				}
			}
		}()
	}
	wg.Wait()
	close(stopTick)
	st.Forks = q.pushed
	st.MaxQueue = q.maxLen
	sort.SliceStable(st.Results, func(i, j int) bool { return st.Results[i].Harness < st.Results[j].Harness })
	return st
}

func (c *RunConfig) witnessCap() int {
	if c.Tier == "thorough" {
		return 600
	}
	return 200
}
