package main

import (
	"fmt"
	"go/types"
)

// deepEq is the engine side of zzverif.Same: structural equality that follows
// pointers, slices, maps and interfaces (a nil slice/map equals an empty one,
// functions are equal only when both are nil). The result is a concrete bool
// or a Bool term (conjunction over the symbolic leaves).
func (ex *Exec) deepEq(t types.Type, x, y value, depth int) value {
	if depth > 200 {
		panic(unsupported("zzverif.Same: structure deeper than 200 (cyclic?)"))
	}
	switch u := t.Underlying().(type) {
	case *types.Pointer:
		xp, okx := x.(*value)
		yp, oky := y.(*value)
		if !okx || !oky {
			panic(unsupported(fmt.Sprintf("zzverif.Same: pointer represented as %T / %T", x, y)))
		}
		if xp == nil || yp == nil {
			return xp == nil && yp == nil
		}
		if xp == yp {
			return true
		}
		return ex.deepEq(u.Elem(), *xp, *yp, depth+1)
	case *types.Slice:
		xs, _ := x.([]value)
		ys, _ := y.([]value)
		if len(xs) != len(ys) {
			return false
		}
		var res value = true
		for i := range xs {
			res = ex.and(res, ex.deepEq(u.Elem(), xs[i], ys[i], depth+1))
			if b, ok := res.(bool); ok && !b {
				return false
			}
		}
		return res
	case *types.Array:
		xa, ya := x.(array), y.(array)
		var res value = true
		for i := range xa {
			res = ex.and(res, ex.deepEq(u.Elem(), xa[i], ya[i], depth+1))
			if b, ok := res.(bool); ok && !b {
				return false
			}
		}
		return res
	case *types.Struct:
		xs, ys := x.(structure), y.(structure)
		var res value = true
		for i := 0; i < u.NumFields(); i++ {
			res = ex.and(res, ex.deepEq(u.Field(i).Type(), xs[i], ys[i], depth+1))
			if b, ok := res.(bool); ok && !b {
				return false
			}
		}
		return res
	case *types.Map:
		xm, _ := x.(*Map)
		ym, _ := y.(*Map)
		nx, ny := 0, 0
		if xm != nil {
			nx = xm.live
		}
		if ym != nil {
			ny = ym.live
		}
		if nx != ny {
			return false
		}
		if nx == 0 {
			return true
		}
		if xm.symKeys > 0 || ym.symKeys > 0 {
			panic(unsupported("zzverif.Same: map with symbolic keys"))
		}
		var res value = true
		for _, e := range xm.entries {
			if e == nil || e.dead {
				continue
			}
			oe := ym.find(ex, e.key)
			if oe == nil || oe.dead {
				return false
			}
			res = ex.and(res, ex.deepEq(u.Elem(), e.val, oe.val, depth+1))
			if b, ok := res.(bool); ok && !b {
				return false
			}
		}
		return res
	case *types.Interface:
		xi, okx := x.(iface)
		yi, oky := y.(iface)
		if !okx || !oky {
			panic(unsupported(fmt.Sprintf("zzverif.Same: interface represented as %T / %T", x, y)))
		}
		if xi.t == nil || yi.t == nil {
			return xi.t == nil && yi.t == nil
		}
		if !types.Identical(xi.t, yi.t) {
			return false
		}
		return ex.deepEq(xi.t, xi.v, yi.v, depth+1)
	case *types.Signature:
		return isNilFunc(x) && isNilFunc(y)
	case *types.Chan:
		panic(unsupported("zzverif.Same: channel"))
	}
	return ex.equals(t, x, y)
}
