package main

// Native replay of solver models against the real build: go test -overlay.

import (
	"bufio"
	"bytes"
	"encoding/json"
	"fmt"
	"os"
	"os/exec"
	"path/filepath"
	"sort"
	"strings"
	"time"
)

type replayCase struct {
	ID      int               `json:"id"`
	Pkg     string            `json:"pkg"`
	Harness string            `json:"harness"`
	Inputs  map[string]uint64 `json:"inputs"`
	Repeat  int               `json:"repeat,omitempty"`

	expectViolation *Violation
	expectEvents    []string
	expectEnd       string
}

type replayResult struct {
	ID     int      `json:"id"`
	Start  bool     `json:"start"`
	Events []string `json:"events"`
	End    string   `json:"end"`
}

func (r replayResult) String() string {
	return fmt.Sprintf("{end=%s events=%v}", r.End, r.Events)
}

type replayer struct {
	p       *Program
	tier    string
	verbose bool
}

// harnessNames lists the Verif* functions declared in a harness directory.
func harnessNamesInDir(dir string) []string {
	var names []string
	ents, _ := os.ReadDir(dir)
	for _, e := range ents {
		if !strings.HasSuffix(e.Name(), ".go") || strings.HasSuffix(e.Name(), "_test.go") {
			continue
		}
		data, _ := os.ReadFile(filepath.Join(dir, e.Name()))
		for _, line := range strings.Split(string(data), "\n") {
			if strings.HasPrefix(line, "func Verif") {
				n := strings.TrimPrefix(line, "func ")
				if i := strings.IndexByte(n, '('); i > 0 {
					names = append(names, n[:i])
				}
			}
		}
	}
	sort.Strings(names)
	return names
}

// writeOverlay creates the go build overlay (harness files, support package,
// generated replay test per package) in dir and returns the overlay file path
// and the list of package patterns.
func writeOverlay(repoDir, verifDir, dir string, pkgs map[string]bool) (string, []string, error) {
	repl := map[string]string{}
	zzroot := filepath.Join(verifDir, "zzverif")
	filepath.Walk(zzroot, func(path string, info os.FileInfo, err error) error {
		if err == nil && !info.IsDir() && strings.HasSuffix(path, ".go") {
			rel, _ := filepath.Rel(zzroot, path)
			repl[filepath.Join(repoDir, "zzverif", rel)] = path
		}
		return nil
	})
	var patterns []string
	root := filepath.Join(verifDir, "harness")
	// the harness sources of EVERY package are part of the build (a harness
	// may call an exported helper of another package's harness), the replay
	// test and the package pattern only exist for the packages replayed
	filepath.Walk(root, func(path string, info os.FileInfo, err error) error {
		if err == nil && !info.IsDir() && strings.HasSuffix(path, ".go") {
			rel, _ := filepath.Rel(root, path)
			repl[filepath.Join(repoDir, rel)] = path
		}
		return nil
	})
	var rels []string
	for pkgPath := range pkgs {
		rel := strings.TrimPrefix(strings.TrimPrefix(pkgPath, repoModule), "/")
		if rel == "" {
			rel = "."
		}
		rels = append(rels, rel)
	}
	sort.Strings(rels)
	for _, rel := range rels {
		hdir := filepath.Join(root, rel)
		ents, err := os.ReadDir(hdir)
		if err != nil {
			return "", nil, err
		}
		pkgName := ""
		for _, e := range ents {
			if !strings.HasSuffix(e.Name(), ".go") {
				continue
			}
			repl[filepath.Join(repoDir, rel, e.Name())] = filepath.Join(hdir, e.Name())
			if pkgName == "" {
				data, _ := os.ReadFile(filepath.Join(hdir, e.Name()))
				for _, line := range strings.Split(string(data), "\n") {
					if strings.HasPrefix(line, "package ") {
						pkgName = strings.TrimSpace(strings.TrimPrefix(line, "package "))
						break
					}
				}
			}
		}
		names := harnessNamesInDir(hdir)
		var sb strings.Builder
		fmt.Fprintf(&sb, "package %s\n\nimport (\n\t\"testing\"\n\n\t\"%s/zzverif\"\n)\n\n", pkgName, repoModule)
		pkgPath := repoModule
		if rel != "." {
			pkgPath += "/" + rel
		}
		fmt.Fprintf(&sb, "func TestVerifReplay(t *testing.T) {\n\tzzverif.RunReplay(t, %q, map[string]func(){\n", pkgPath)
		for _, n := range names {
			fmt.Fprintf(&sb, "\t\t%q: %s,\n", n, n)
		}
		sb.WriteString("\t})\n}\n")
		gen := filepath.Join(dir, "replay_"+sanitize(rel)+"_test.go")
		if err := os.WriteFile(gen, []byte(sb.String()), 0o644); err != nil {
			return "", nil, err
		}
		repl[filepath.Join(repoDir, rel, "zz_verif_replay_test.go")] = gen
		if rel == "." {
			patterns = append(patterns, ".")
		} else {
			patterns = append(patterns, "./"+rel)
		}
	}
	data, _ := json.MarshalIndent(map[string]interface{}{"Replace": repl}, "", " ")
	ov := filepath.Join(dir, "overlay.json")
	if err := os.WriteFile(ov, data, 0o644); err != nil {
		return "", nil, err
	}
	return ov, patterns, nil
}

func (rp *replayer) run(cases []replayCase) (map[int]replayResult, error) {
	dir, err := os.MkdirTemp("", "symgo-replay-")
	if err != nil {
		return nil, err
	}
	defer os.RemoveAll(dir)
	pkgs := map[string]bool{}
	for _, c := range cases {
		pkgs[c.Pkg] = true
	}
	ov, patterns, err := writeOverlay(rp.p.repoDir, rp.p.verifDir, dir, pkgs)
	if err != nil {
		return nil, err
	}
	rf := map[string]interface{}{"tier": rp.tier, "cases": cases}
	data, _ := json.Marshal(rf)
	in := filepath.Join(dir, "cases.json")
	out := filepath.Join(dir, "results.jsonl")
	if err := os.WriteFile(in, data, 0o644); err != nil {
		return nil, err
	}
	return runGoTestReplay(rp.p.repoDir, ov, patterns, in, out, rp.verbose)
}

func runGoTestReplay(repoDir, ov string, patterns []string, in, out string, verbose bool) (map[int]replayResult, error) {
	args := append([]string{"test", "-vet=off", "-count=1", "-overlay", ov, "-run", "^TestVerifReplay$", "-timeout", "20m"}, patterns...)
	cmd := exec.Command("go", args...)
	cmd.Dir = repoDir
	cmd.Env = append(os.Environ(), "GOFLAGS=-mod=mod", "GOPROXY=off", "GOSUMDB=off", "GOTOOLCHAIN=local",
		"VERIF_REPLAY_FILE="+in, "VERIF_REPLAY_OUT="+out)
	var buf bytes.Buffer
	cmd.Stdout = &buf
	cmd.Stderr = &buf
	t0 := time.Now()
	runErr := cmd.Run()
	if verbose {
		fmt.Fprintf(os.Stderr, "native replay: %d patterns, %.1fs, err=%v\n", len(patterns), time.Since(t0).Seconds(), runErr)
	}
	results := map[int]replayResult{}
	f, err := os.Open(out)
	if err != nil {
		return nil, fmt.Errorf("native replay produced no output: %v\n%s", runErr, tail(buf.String(), 30))
	}
	defer f.Close()
	sc := bufio.NewScanner(f)
	sc.Buffer(make([]byte, 1<<20), 1<<26)
	started := map[int]bool{}
	for sc.Scan() {
		var r replayResult
		if json.Unmarshal(sc.Bytes(), &r) != nil {
			continue
		}
		if r.Start {
			started[r.ID] = true
			continue
		}
		results[r.ID] = r
	}
	// a case that started but never finished killed the test process (fatal
	// error such as stack overflow, or os.Exit)
	for id := range started {
		if _, ok := results[id]; !ok {
			results[id] = replayResult{ID: id, End: "fatal:process died", Events: []string{tail(buf.String(), 6)}}
		}
	}
	if runErr != nil && len(results) == 0 {
		return nil, fmt.Errorf("go test failed: %v\n%s", runErr, tail(buf.String(), 30))
	}
	return results, nil
}

func tail(s string, n int) string {
	lines := strings.Split(strings.TrimRight(s, "\n"), "\n")
	if len(lines) > n {
		lines = lines[len(lines)-n:]
	}
	return strings.Join(lines, "\n")
}

func violationReproduced(v *Violation, r replayResult) bool {
	switch v.Kind {
	case "assert":
		for _, e := range r.Events {
			if e == "assert-fail:"+v.Label {
				return true
			}
		}
		return false
	case "panic":
		return strings.HasPrefix(r.End, "panic:") || strings.HasPrefix(r.End, "fatal:")
	case "bound":
		return strings.HasPrefix(r.End, "fatal:") || strings.HasPrefix(r.End, "panic:")
	}
	return false
}

func compareWitness(c replayCase, r replayResult) string {
	want := c.expectEvents
	got := r.Events
	// opaque observations are not compared
	eq := len(want) == len(got)
	if c.expectEnd == "stopped" {
		// the path ended at a failed obligation (known finding): natively the
		// same obligation fails; only the common prefix is comparable
		eq = len(got) >= len(want)
	}
	if eq {
		for i := range want {
			if want[i] != got[i] && !strings.Contains(want[i], "<opaque>") {
				eq = false
				break
			}
		}
	}
	endOK := false
	switch c.expectEnd {
	case "ok":
		endOK = r.End == "ok"
	case "panic":
		endOK = strings.HasPrefix(r.End, "panic:") || strings.HasPrefix(r.End, "fatal:")
	case "stopped":
		endOK = true
	}
	if eq && endOK {
		return ""
	}
	return fmt.Sprintf("witness diverges: %s inputs=%s engine={end=%s events=%v} native=%v", c.Harness, renderInputs(c.Inputs), c.expectEnd, want, r)
}

func writeReplayFile(path, tier, pkg string, v Violation) {
	doc := map[string]interface{}{
		"tier": tier,
		"cases": []map[string]interface{}{{
			"id": 0, "pkg": pkg, "harness": v.Harness, "inputs": v.Inputs, "repeat": 200,
		}},
		"violation": v,
		"rendered":  renderInputs(v.Inputs),
	}
	data, _ := json.MarshalIndent(doc, "", " ")
	os.WriteFile(path, data, 0o644)
}

// cmdReplay re-runs a replay file natively and reports what happened.
func cmdReplay(args []string) int {
	if len(args) < 1 {
		fmt.Fprintln(os.Stderr, "usage: symgo replay <file> [-repo dir] [-verif dir]")
		return 2
	}
	repo, verif := "/repo", "/verif"
	for i := 1; i+1 < len(args); i += 2 {
		switch args[i] {
		case "-repo":
			repo = args[i+1]
		case "-verif":
			verif = args[i+1]
		}
	}
	data, err := os.ReadFile(args[0])
	if err != nil {
		fmt.Fprintln(os.Stderr, err)
		return 2
	}
	var doc struct {
		Tier  string       `json:"tier"`
		Cases []replayCase `json:"cases"`
		Viol  *Violation   `json:"violation"`
	}
	if err := json.Unmarshal(data, &doc); err != nil {
		fmt.Fprintln(os.Stderr, err)
		return 2
	}
	dir, err := os.MkdirTemp("", "symgo-replay-")
	if err != nil {
		fmt.Fprintln(os.Stderr, err)
		return 2
	}
	defer os.RemoveAll(dir)
	pkgs := map[string]bool{}
	for _, c := range doc.Cases {
		pkgs[c.Pkg] = true
	}
	ov, patterns, err := writeOverlay(repo, verif, dir, pkgs)
	if err != nil {
		fmt.Fprintln(os.Stderr, err)
		return 2
	}
	in := filepath.Join(dir, "cases.json")
	out := filepath.Join(dir, "results.jsonl")
	cd, _ := json.Marshal(map[string]interface{}{"tier": doc.Tier, "cases": doc.Cases})
	os.WriteFile(in, cd, 0o644)
	results, err := runGoTestReplay(repo, ov, patterns, in, out, true)
	if err != nil {
		fmt.Fprintln(os.Stderr, err)
		return 2
	}
	code := 0
	for _, c := range doc.Cases {
		r := results[c.ID]
		fmt.Printf("case %d harness=%s inputs=%s -> end=%s events=%v\n", c.ID, c.Harness, renderInputs(c.Inputs), r.End, r.Events)
		if doc.Viol != nil && violationReproduced(doc.Viol, r) {
			fmt.Printf("REPRODUCED violation %s/%s natively\n", doc.Viol.Harness, doc.Viol.Label)
			code = 1
		}
	}
	return code
}
