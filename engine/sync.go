package main

// Models of sync and sync/atomic for a sequential interpreter.

import (
	"go/token"
	"go/types"
)

const tokEQL = token.EQL

func fieldIndex(t types.Type, name string) int {
	st := t.Underlying().(*types.Struct)
	for i := 0; i < st.NumFields(); i++ {
		if st.Field(i).Name() == name {
			return i
		}
	}
	panic(pathAbort{abEngine, "no field " + name + " in " + t.String()})
}

// recvStruct returns the struct behind the receiver pointer and its type.
func recvStruct(fr *frame, a []value) (structure, types.Type) {
	p := a[0].(*value)
	if p == nil {
		fr.ex.panicRuntime("invalid memory address or nil pointer dereference")
	}
	t := deref(fr.fn.Signature.Recv().Type())
	return (*p).(structure), t
}

func addSync(m map[string]extFn) {
	// Mutex: state field 0 = unlocked, 1 = locked
	m["(*sync.Mutex).Lock"] = func(ex *Exec, fr *frame, a []value) value {
		s, t := recvStruct(fr, a)
		i := fieldIndex(t, "state")
		if s[i].(I) != 0 {
			panic(pathAbort{abBound, "self-deadlock: sync.Mutex locked twice"})
		}
		s[i] = I(1)
		return nil
	}
	m["(*sync.Mutex).TryLock"] = func(ex *Exec, fr *frame, a []value) value {
		s, t := recvStruct(fr, a)
		i := fieldIndex(t, "state")
		if s[i].(I) != 0 {
			return false
		}
		s[i] = I(1)
		return true
	}
	m["(*sync.Mutex).Unlock"] = func(ex *Exec, fr *frame, a []value) value {
		s, t := recvStruct(fr, a)
		i := fieldIndex(t, "state")
		if s[i].(I) == 0 {
			panic(pathAbort{abEngine, "sync: unlock of unlocked mutex (fatal error natively)"})
		}
		s[i] = I(0)
		return nil
	}
	// RWMutex: w.state = writer lock, readerCount.v = readers
	rw := func(fr *frame, a []value) (w structure, wi int, rc structure, ri int) {
		s, t := recvStruct(fr, a)
		st := t.Underlying().(*types.Struct)
		wf := fieldIndex(t, "w")
		w = s[wf].(structure)
		wi = fieldIndex(st.Field(wf).Type(), "state")
		rf := fieldIndex(t, "readerCount")
		rc = s[rf].(structure)
		ri = fieldIndex(st.Field(rf).Type(), "v")
		return
	}
	m["(*sync.RWMutex).Lock"] = func(ex *Exec, fr *frame, a []value) value {
		w, wi, rc, ri := rw(fr, a)
		if w[wi].(I) != 0 || rc[ri].(I) != 0 {
			panic(pathAbort{abBound, "self-deadlock: sync.RWMutex.Lock while held"})
		}
		w[wi] = I(1)
		return nil
	}
	m["(*sync.RWMutex).Unlock"] = func(ex *Exec, fr *frame, a []value) value {
		w, wi, _, _ := rw(fr, a)
		if w[wi].(I) == 0 {
			panic(pathAbort{abEngine, "sync: Unlock of unlocked RWMutex"})
		}
		w[wi] = I(0)
		return nil
	}
	m["(*sync.RWMutex).RLock"] = func(ex *Exec, fr *frame, a []value) value {
		w, wi, rc, ri := rw(fr, a)
		if w[wi].(I) != 0 {
			panic(pathAbort{abBound, "self-deadlock: sync.RWMutex.RLock while write-locked"})
		}
		rc[ri] = I(uint64(rc[ri].(I)) + 1)
		return nil
	}
	m["(*sync.RWMutex).RUnlock"] = func(ex *Exec, fr *frame, a []value) value {
		_, _, rc, ri := rw(fr, a)
		if rc[ri].(I) == 0 {
			panic(pathAbort{abEngine, "sync: RUnlock of unlocked RWMutex"})
		}
		rc[ri] = I(uint64(rc[ri].(I)) - 1)
		return nil
	}
	// Once: done.v
	m["(*sync.Once).Do"] = func(ex *Exec, fr *frame, a []value) value {
		s, t := recvStruct(fr, a)
		st := t.Underlying().(*types.Struct)
		df := fieldIndex(t, "done")
		d := s[df].(structure)
		vi := fieldIndex(st.Field(df).Type(), "v")
		if d[vi].(I) != 0 {
			return nil
		}
		defer func() { d[vi] = I(1) }()
		ex.call(fr, 0, a[1], nil)
		return nil
	}
	// Pool
	m["(*sync.Pool).Get"] = func(ex *Exec, fr *frame, a []value) value {
		p := a[0].(*value)
		if ex.poolMode == 0 {
			if l := ex.pools[p]; len(l) > 0 {
				v := l[len(l)-1]
				ex.pools[p] = l[:len(l)-1]
				ex.poolReuse++
				return v
			}
		}
		s, t := recvStruct(fr, a)
		nf := s[fieldIndex(t, "New")]
		if isNilFunc(nf) {
			return iface{}
		}
		return ex.call(fr, 0, nf, nil)
	}
	m["(*sync.Pool).Put"] = func(ex *Exec, fr *frame, a []value) value {
		p := a[0].(*value)
		if i, ok := a[1].(iface); ok && i.t == nil {
			return nil
		}
		if ex.poolMode == 0 {
			ex.pools[p] = append(ex.pools[p], a[1])
		}
		return nil
	}

	// sync.Map (sequential semantics; keys must be concrete, insertion ordered)
	smap := func(ex *Exec, a []value) *syncMapModel {
		p := a[0].(*value)
		m := ex.syncMaps[p]
		if m == nil {
			m = &syncMapModel{index: map[interface{}]int{}}
			ex.syncMaps[p] = m
		}
		return m
	}
	skey := func(v value) interface{} {
		k, ok := hostKey(v)
		if !ok {
			panic(unsupported("sync.Map with a symbolic key"))
		}
		return k
	}
	m["(*sync.Map).Load"] = func(ex *Exec, fr *frame, a []value) value {
		sm := smap(ex, a)
		if i, ok := sm.index[skey(a[1])]; ok && !sm.dead[i] {
			return tuple{sm.vals[i], true}
		}
		return tuple{iface{}, false}
	}
	m["(*sync.Map).Store"] = func(ex *Exec, fr *frame, a []value) value {
		sm := smap(ex, a)
		sm.store(skey(a[1]), a[1], a[2])
		return nil
	}
	m["(*sync.Map).LoadOrStore"] = func(ex *Exec, fr *frame, a []value) value {
		sm := smap(ex, a)
		if i, ok := sm.index[skey(a[1])]; ok && !sm.dead[i] {
			return tuple{sm.vals[i], true}
		}
		sm.store(skey(a[1]), a[1], a[2])
		return tuple{a[2], false}
	}
	m["(*sync.Map).Delete"] = func(ex *Exec, fr *frame, a []value) value {
		sm := smap(ex, a)
		if i, ok := sm.index[skey(a[1])]; ok {
			sm.dead[i] = true
		}
		return nil
	}

	// sync/atomic functions (sequential semantics)
	for _, ty := range []string{"Int32", "Int64", "Uint32", "Uint64", "Uintptr"} {
		w := 64
		if ty == "Int32" || ty == "Uint32" {
			w = 32
		}
		m["sync/atomic.Load"+ty] = func(ex *Exec, fr *frame, a []value) value { return *(a[0].(*value)) }
		m["sync/atomic.Store"+ty] = func(ex *Exec, fr *frame, a []value) value { *(a[0].(*value)) = a[1]; return nil }
		m["sync/atomic.Add"+ty] = func(ex *Exec, fr *frame, a []value) value {
			p := a[0].(*value)
			v := I((uint64((*p).(I)) + uint64(a[1].(I))) & mask(w))
			*p = v
			return v
		}
		m["sync/atomic.Swap"+ty] = func(ex *Exec, fr *frame, a []value) value {
			p := a[0].(*value)
			old := *p
			*p = a[1]
			return old
		}
		m["sync/atomic.CompareAndSwap"+ty] = func(ex *Exec, fr *frame, a []value) value {
			p := a[0].(*value)
			if (*p).(I) == a[1].(I) {
				*p = a[2]
				return true
			}
			return false
		}
	}
	m["sync/atomic.LoadPointer"] = func(ex *Exec, fr *frame, a []value) value { return *(a[0].(*value)) }
	m["sync/atomic.StorePointer"] = func(ex *Exec, fr *frame, a []value) value { *(a[0].(*value)) = a[1]; return nil }
}


func isNilFunc(v value) bool {
	switch f := v.(type) {
	case nil:
		return true
	case *closure:
		return f == nil
	default:
		return isNilSSAFunc(v)
	}
}

// syncMapModel is the sequential model of one sync.Map.
type syncMapModel struct {
	index map[interface{}]int
	keys  []value
	vals  []value
	dead  []bool
}

func (m *syncMapModel) store(hk interface{}, k, v value) {
	if i, ok := m.index[hk]; ok {
		m.vals[i], m.dead[i] = v, false
		return
	}
	m.index[hk] = len(m.keys)
	m.keys = append(m.keys, k)
	m.vals = append(m.vals, v)
	m.dead = append(m.dead, false)
}
