#!/usr/bin/env python3
"""Verify a delivered seeded defect in a scratch worktree, store it under
/verif/seeded/<id>/, run the owning check against it in /repo and undo.

usage: seedrun.py <PROP> <delivery_dir> <N> [--tier quick|thorough] [--props C01,C02]
"""
import json, os, re, shutil, subprocess, sys, time

def sh(cmd, cwd=None, timeout=3600):
    env = dict(os.environ, GOFLAGS="-mod=mod", GOPROXY="off", GOSUMDB="off", GOTOOLCHAIN="local")
    p = subprocess.run(cmd, shell=True, cwd=cwd, env=env, capture_output=True, text=True, timeout=timeout)
    return p.returncode, p.stdout + p.stderr

def main():
    prop, ddir, n = sys.argv[1], sys.argv[2], sys.argv[3]
    tier = "quick"
    props = [prop]
    args = sys.argv[4:]
    for i, a in enumerate(args):
        if a == "--tier": tier = args[i+1]
        if a == "--props": props = args[i+1].split(",")
    patch = os.path.join(ddir, f"patch{n}.diff")
    demo = os.path.join(ddir, f"demo{n}_test.go")
    notes = os.path.join(ddir, f"notes{n}.md")
    first = open(demo).readline()
    m = re.search(r"package dir:\s*(\S+)", first)
    pkgdir = m.group(1) if m else "."
    sid = f"{prop}-{n}"
    out = f"/verif/seeded/{sid}"
    meta = {"id": sid, "breaks_property": prop, "package_dir_of_demo": pkgdir, "ran": []}
    # ---- 1. confirm in a scratch worktree ----
    wt = f"/tmp/vs_{sid}"
    sh(f"git -C /repo worktree remove --force {wt}")
    rc, o = sh(f"git -C /repo worktree add -q --detach {wt} HEAD")
    assert rc == 0, o
    try:
        dst = os.path.join(wt, pkgdir, "zz_seed_demo_test.go")
        shutil.copy(demo, dst)
        rc0, o0 = sh(f"go test -vet=off -count=1 -run . ./{pkgdir}", cwd=wt) if False else sh(f"go test -vet=off -count=1 ./{pkgdir}", cwd=wt)
        base_ok = rc0 == 0 or ("TestEnum_String" in o0 and o0.count("--- FAIL") == 1)
        rc1, o1 = sh(f"git apply {patch}", cwd=wt)
        applied = rc1 == 0
        rc2, o2 = sh(f"go build ./... && go test -vet=off -count=1 ./{pkgdir}", cwd=wt)
        demo_fails = rc2 != 0
        os.remove(dst)
        rc3, o3 = sh(f"python3 /verif/tools/check_baseline.py {wt}")
        suite_ok = rc3 == 0
        meta["confirmed"] = {"demo_passes_without_patch": base_ok, "patch_applies": applied,
                             "demo_fails_with_patch": demo_fails, "suite_passes_with_patch": suite_ok,
                             "suite_summary": o3.strip().splitlines()[0] if o3.strip() else ""}
        meta["ran"].append(f"scratch worktree {wt}: go test ./{pkgdir} with demo (unpatched, patched); tools/check_baseline.py on the patched tree")
    finally:
        sh(f"git -C /repo worktree remove --force {wt}")
    keep = base_ok and applied and demo_fails and suite_ok
    print(f"[{sid}] confirmed={keep} {meta['confirmed']}")
    if not keep:
        meta["kept"] = False
        os.makedirs(out, exist_ok=True)
        json.dump(meta, open(os.path.join(out, "meta.json"), "w"), indent=1)
        return 2
    os.makedirs(out, exist_ok=True)
    shutil.copy(patch, os.path.join(out, "patch.diff"))
    shutil.copy(demo, os.path.join(out, "demo_test.go"))
    if os.path.exists(notes):
        shutil.copy(notes, os.path.join(out, "notes.md"))
        txt = open(notes).read()
        meta["needs_to_manifest"] = txt[:1500]
    # ---- 2. run the checks against it in /repo, then undo ----
    rc, o = sh("git -C /repo status --porcelain")
    assert o.strip() == "", "repo not clean: " + o
    rc, o = sh(f"git -C /repo apply {patch}")
    assert rc == 0, o
    results = {}
    try:
        for p in props:
            t0 = time.time()
            rc, o = sh(f"/verif/bin/symgo check -prop {p} -tier {tier} -noevidence -timeout 15m", cwd="/verif", timeout=7200)
            lines = [l for l in o.splitlines() if l.startswith(("VIOLATION", "INCONCLUSIVE", "symgo:", "  harness=", "  inputs="))]
            results[p] = {"tier": tier, "exit": rc, "detected": rc == 1, "wall_s": round(time.time()-t0, 1), "output": lines[:12]}
            print(f"[{sid}] check {p} {tier}: exit={rc} detected={rc==1}")
            for l in lines[:6]: print("    ", l[:200])
    finally:
        sh("git -C /repo checkout -- .")
        rc, o = sh("git -C /repo status --porcelain")
        assert o.strip() == "", "repo not restored: " + o
    meta["kept"] = True
    meta["checks"] = results
    meta["ran"].append("git -C /repo apply patch.diff; /verif/bin/symgo check -prop <P> -tier <tier> -noevidence -timeout 15m; git -C /repo checkout -- .")
    old = {}
    mp = os.path.join(out, "meta.json")
    if os.path.exists(mp):
        try: old = json.load(open(mp)).get("checks", {})
        except Exception: pass
    old.update(results)
    meta["checks"] = old
    json.dump(meta, open(mp, "w"), indent=1)
    return 0

sys.exit(main())
