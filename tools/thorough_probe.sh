#!/bin/bash
# usage: thorough_probe.sh <symgo> <verifdir> <repo> <timeout_s> PROP...
# Runs every harness of the given properties separately in the thorough tier
# and prints wall time and outcome - used to choose thorough bounds that run clean.
SYMGO=$1; V=$2; R=$3; T=$4; shift 4
for p in "$@"; do
  for h in $(grep -rhoE "^func Verif${p}_[A-Za-z0-9]+" $V/harness | sed 's/^func //' | sort -u); do
    s=$(date +%s)
    out=$(timeout $T $SYMGO check -prop $p -tier thorough -noevidence -only ${h#Verif${p}_} -verif $V -repo $R 2>&1 | grep -a "exit=\|INCONCL" | head -2 | grep -a -o "INCONCLUSIVE.\{0,160\}\|paths=[0-9]*\|unknown=[0-9]*\|exit=[0-9]*" | tr '\n' ' ')
    echo "$p $h wall=$(( $(date +%s)-s )) $out"
  done
done
echo PROBE-DONE
