#!/usr/bin/env python3
"""Run the repository's test suite (guard off: there are no hooks) and compare
with the stable baseline in /root/.vp/BASELINE.json. Exit 0 iff every
stable_pass test passes."""
import json, os, subprocess, sys
env = dict(os.environ, GOFLAGS="-mod=mod", GOPROXY="off", GOSUMDB="off", GOTOOLCHAIN="local")
p = subprocess.run(["go", "test", "-json", "-vet=off", "-count=1", "-timeout", "25m", "./..."],
                   cwd=(sys.argv[1] if len(sys.argv) > 1 else "/repo"), env=env, capture_output=True, text=True)
passed = set()
failed = set()
for line in p.stdout.splitlines():
    try:
        e = json.loads(line)
    except Exception:
        continue
    if "Test" in e and e.get("Action") in ("pass", "fail"):
        name = e["Package"] + "::" + e["Test"]
        (passed if e["Action"] == "pass" else failed).add(name)
base = json.load(open("/root/.vp/BASELINE.json"))
stable = set(base["stable_pass"])
missing = sorted(stable - passed)
print(f"passed={len(passed)} failed={len(failed)} stable={len(stable)} stable_not_passing={len(missing)}")
for m in missing[:30]:
    print("  NOT PASSING:", m)
newfail = sorted(failed - set(base.get("always_fail", [])))
for m in newfail[:30]:
    print("  FAILED:", m)
sys.exit(1 if missing else 0)
