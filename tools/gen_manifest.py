#!/usr/bin/env python3
"""Generates /verif/MANIFEST.json from the table below (single source of truth)."""
import json

TECH = ("bounded symbolic execution of the real go/ssa code (symgo) with z3 deciding every branch "
        "and assertion; counterexamples and path witnesses replayed natively")
TRUST = ("Trusted: go/ssa (x/tools v0.29.0), the symgo interpreter (validated on every run by native replay of "
         "up to 200/600 path witnesses; a divergence is exit 3), z3 4.8.12 (unknown/timeout/error never counted as "
         "discharged). Anything outside the stated bounds is outside the claim. ")

CHECKS = {
 "C13": dict(
  text="Bounded symbolic model checking of the real json.NewNumber / Number.Cmp code: (1) language equality with the JSON "
       "number grammar for ALL byte strings up to N bytes (N=5 quick, 7 thorough; at most 3 exponent digits); (2) for every "
       "accepted text in that range the Number denotes the text's value (mathematical-integer oracle), satisfies the "
       "representation invariant, String() denotes the same value and LengthOfFractionalPart is the significant fraction "
       "length; (3) one inductive step: for ALL pairs of Number states satisfying the invariant with up to L digits each "
       "(L=3 quick, 5 thorough), every exponent position and both signs, Cmp/Equal/LT/LE/GT/GE agree with exact integer "
       "arithmetic; (4) concrete small and 17-20 digit exponents never panic or wrap; (5) 18 concrete long operands (19-21 digit integer "
       "parts around 2^63, 2^64 and 10^20, also spelled with exponents, both signs) compared pairwise against exact integers; (6) the "
       "precision constraint - the consumer of the fraction length - on 15 literals with and without exponents x precision 1-10: "
       "refused iff the value has more significant fraction digits.",
  note="(3) covers any history only because (2) shows NewNumber establishes the invariant. Known finding "
       "C13-zero-mantissa-exponent (0e5 rejected) is reported as KNOWN-FINDING.",
  ref="DESIGN.md §4 C13"),
 "C20": dict(
  text="Bounded symbolic model checking of the real type vocabulary helpers: IsValidType against the documented list for ALL "
       "strings up to 9 bytes (the 17-entry map lookup is decided by the solver); IsEqualSoft reflexive/symmetric/families for "
       "all pairs over the closed vocabulary plus the undefined type (symbolic strings restricted by assumption); token-type "
       "agreement for all 256 json.Type values; GuessSchemaType equals the scanner's classifier json.Guess for ALL byte strings "
       "up to N bytes (4 quick, 6 thorough) under 8 modelled map iteration orders.",
  note="Map iteration order is an engine parameter (insertion, reverse, rotations), not Go's real randomisation; wildcard~comment "
       "is treated as unspecified. Known finding C20-null-array-asymmetry is reported as KNOWN-FINDING.",
  ref="DESIGN.md §4 C20"),

 "C12": dict(
  text="Bounded symbolic model checking of the real formats/json scanner through the public Document API: for ALL byte strings up to N "
       "bytes (4 quick, 6 thorough), with and without AllowTrailingNonSpaceCharacters, Check() accepts exactly RFC 8259 (reference "
       "recursive-descent recogniser in the harness); and prefix-probes: every prefix of 11 corpus documents (all value kinds, "
       "escapes incl. \\/, one- and two-digit exponents, nesting) followed by K arbitrary bytes (1 quick, 2 thorough) and EOF, so every scanner state the "
       "corpus reaches is crossed with every byte class and with end of input. On every accepted input: the lexeme stream is "
       "properly nested (harness-side stack), spans lie inside the content, the structural event list rebuilt from the stream "
       "(object/array begin-end, key spans, literal spans) equals the reference decoder's, and Len() is the end of the value.",
  note="Under the trailing-characters option a number cut inside its syntax (\"1e\", \"1.x\") is treated as unspecified (is it the "
       "value 1 followed by text?). Decoded string VALUES are not compared here (spans are); that is C03's subject. Len() and Check() of a document are "
       "also compared with a fresh object after 0/1/3/all NextLexeme calls and after Check(). Single-byte mutations of the corpus "
       "documents (any position, any byte) are a third input family of the language check.",
  ref="DESIGN.md §4 C12"),
 "C19": dict(
  text="Bounded symbolic model checking of the real generated containers RuleASTNodes, ASTNodes, Constraints and StringSet: ONE "
       "operation (Set, Update, Delete of a present or absent key, Get/GetValue, Has, Len, Filter, Map, Find, Each, EachSafe; Add) "
       "with arbitrary arguments from an ARBITRARY valid state of up to N distinct symbolic keys (N=3 quick, 4-5 thorough); "
       "return values, callback visit sequences and the post-state (order slice and data map) equal those of a reference "
       "insertion-ordered dictionary, and the representation invariant is re-established - an inductive step that covers "
       "histories of any length within N keys; two-operation sequences are added as a cross-check. Key coincidences are "
       "decided by the solver (symbolic map lookups). Every step also runs under two other modelled iteration orders of the data map; the "
       "constraints map also holds NIL values and the string set the empty string (present like any other value).",
  note="MarshalJSON is outside the claim (encoding/json reflection is not executed by the engine). Keys are one-byte strings / "
       "small ints, values carry one symbolic byte of identity.",
  ref="DESIGN.md §4 C19"),

 "C02": dict(
  text="Bounded symbolic model checking with the no-crash obligation as an ENGINE-LEVEL assertion: on every explored path of the real "
       "code no Go panic escapes a public entry point and the step/call-depth budget is not exhausted (an exhausted budget is "
       "replayed natively as a hang / stack-overflow candidate). Inputs: (1) ALL byte strings up to N bytes for jschema (N=3/4: Len, "
       "Check, Example, GetAST, UsedUserTypes), enum rules (4/5: Len, Check, GetAST, Values), regex schemas (4/6; regexp.Compile as an "
       "uninterpreted validity predicate), JSON documents (4/6: Len, Check, NextLexeme loop, both option values), NewNumber and "
       "GuessSchemaType (5/7); (2) prefix-probes: every prefix (= every truncation) of 14 jschema / 6 enum / 10 JSON corpus texts "
       "followed by K=1/2 arbitrary bytes; (3) projects of 2/3 mutually or self referencing user types over 10/7 body kinds "
       "(shortcut, choice, key shortcut, array, allOf, type, or, optional) with symbolic targets under 5 root shapes; (4) OpenAPI "
       "conversion at struct level: for every accepted text of an 11-schema corpus with one digit varied and at most one arbitrary trailing "
       "byte, building the Schema Object tree (jsoac.New, SetDescription) does not panic; (5) NewNumber/GuessSchemaType on a symbolic "
       "mantissa with 16 concrete exponents at and beyond every limit of the implementation (refusal threshold +-1, 17-20 digits of "
       "both signs, 2^63, 2^64); (6) Example() of 41 concrete regex schemas, 14 of which compile but defeat the example generator "
       "(a generator panic is turned into a panic of the code under test); (7) single-byte mutations: every corpus text (jschema, enum, "
       "JSON) with ONE byte at any position replaced by an arbitrary byte; (8) enum string values of up to 6/8 bytes mixing ASCII, "
       "invalid bytes, lead and continuation bytes (malformed UTF-8 grows when decoded); (9) user types whose text has no value at "
       "all (empty, blank, comment only) or is cut short, every operation twice.",
  note="The reflective json.Marshal step of the OpenAPI conversion is outside the claim (encoding/json reflection is not executed); regex Example() (reggen) is host code and "
       "not explored symbolically; memory exhaustion is outside; inputs longer than the bounds that are not prefix-probe shaped are outside. "
       "Known finding C02-openapi-enum-alternative-panics (an `or` alternative of type enum panics the conversion) is reported as KNOWN-FINDING.",
  ref="DESIGN.md §4 C02"),
 "C16": dict(
  text="Bounded symbolic model checking: (1) position arithmetic of kit.JSchemaError on ALL texts of up to T tokens (newline in each of "
       "the four conventions LF, CR, CRLF, LFCR, space, letter; T=4/6) and every byte index: Line, Column, SourceSubString equal a "
       "reference derived from the tokens, and String() renders without panic for every index including indexes at/after the end and "
       "2^63, 2^64-1; a text may end inside its last two-byte line break (truncation); lines of 190-210 and 450 bytes as first, "
       "second or later line are quoted whole or as a prefix followed by '...'; (2) on every rejecting path of the C02 input families (jschema, enum, regex, JSON document) the returned error is a "
       "kit.JSchemaError or *errs.Err (never a runtime.Error or other raw Go error), its code is not the internal-failure code, its "
       "message is not a recovered runtime-error text, a carried index lies inside the text, and rendering it succeeds; the same for "
       "projects of mutually referencing types (the C02 project family), for the single-byte mutation families and for user types "
       "without a value; a positioned diagnostic has 1-based line and column (its index lies inside the file it names - also when the "
       "error comes from a registered type); (3) kit.ConvertError keeps code and message of every kind of diagnostic and renders.",
  note="Message wording is outside the claim (messages built from symbolic bytes are opaque to the engine); texts mixing newline "
       "conventions are outside (1).",
  ref="DESIGN.md §4 C16"),

 "C17": dict(
  text="Bounded symbolic model checking of the real enum-rule scanner and the jschema enum constraint: (a) for ALL rule texts of up to N "
       "bytes (4 quick, 6 thorough) without annotation/comment introducers, and for all two-entry templates [V1, V2] (V: integer, float, "
       "one/two-byte strings over letters, digits, dot, space, slash, the control byte 0x1F and DEL, strings with an escape, true, null): accepted iff a bracketed list "
       "of pairwise distinct scalars (same = equal decoded strings or identical non-string literals; \\/ vs / crossed), and Values() "
       "lists the scalars in order with their kind - under both modelled map orders; (a') `[ V1 , V2 ]` with or without a dangling comma "
       "and with nothing / a line break / an inline annotation / a block annotation in each of the six gaps: accepted iff the list "
       "without its annotations is well formed; (b) `X // {enum: @r}` with the rule file in six "
       "layouts (plain, inline notes, multi-line note, empty and non-empty stand-alone annotations, empty inline annotations) gets the same verdict and the same Example() as `X // {enum: [V1, V2]}` for all "
       "X, V1, V2 from the holes.",
  note="Duplicate candidates involving \\u escapes or non-ASCII bytes are outside the reference (no claim); rule texts longer than the "
       "bounds and other annotation layouts are outside.",
  ref="DESIGN.md §4 C17"),
 "C18": dict(
  text="Bounded symbolic model checking of the real regex schema code, claimed in part: for ALL texts of up to N bytes (4 quick, 6 "
       "thorough) with regexp.Compile as an uninterpreted validity predicate: a text that is not /-delimited (first byte '/', a later "
       "'/' preceded by an even number of backslashes) is rejected with a diagnostic, a delimited text is rejected only with the "
       "invalid-pattern code, and when accepted Len() is the delimited length and Pattern()/AST carry exactly the bytes between the "
       "delimiters. Plus 32 concrete patterns (incl. matches that begin or end with a blank) x 3 trailers with the real regexp engine "
       "as host code: accepted iff the pattern compiles, Example() is matched by the pattern; the rsoac struct keeps exactly the "
       "pattern and its JSON text decodes to it (15 patterns incl. control bytes, DEL, HTML-sensitive and non-ASCII characters); a "
       "regex schema registered as a user type makes the referring schema accept exactly the matching strings (12 patterns incl. "
       "ones ending in an escaped delimiter x 16 candidates).",
  note="'Example() is matched by the pattern' for arbitrary patterns is outside the claim (reggen and regexp are host code, concrete "
       "inputs only); paths decided by the uninterpreted predicate are not replayed natively (counted in the evidence).",
  ref="DESIGN.md §4 C18"),

 "C01": dict(
  text="Bounded symbolic model checking of the whole real pipeline (scanner, loader, compiler, checker) through JSchema.Check(): schema "
       "texts from rule templates whose scalar holes are symbolic, verdict compared with an oracle over exact integers: min/max with "
       "absent/true/false exclusivity for all signed decimals V, B with <=2 integer and <=2/3 fraction digits (value == bound, last "
       "fraction digit, trailing zeros, negatives, -0); min+max pairs; precision (1-3 fraction digits x P); minLength/maxLength over "
       "strings of 0-3/4 pieces (plain or escaped) x N; minItems/maxItems (1-3 items x N); min+max with both exclusivity rules in every "
       "combination (integers); `or` of two rule sets whose first alternative is an integer rule set or a (nullable) string rule set "
       "that can never accept the value; a type "
       "reference through `type` and through a shortcut with the rule on the type; inline enum with two entries; `or` over type names "
       "where a name recurs through a type choice; the five built-in string formats over a table of 37 clearly valid / clearly "
       "invalid candidates, at the root, as a member and inside a registered type; a scalar under `type` with every combination of "
       "const and nullable; the regex rule over 9 patterns x 11 candidates with escapes on both sides; strings that spell a literal "
       "(\"null\", \"true\") under minLength x nullable. Accepted iff the "
       "oracle accepts; min/max rejections carry the constraint-violation code.",
  note="Outside the claim: regex rule and formats on SYMBOLIC subjects (the validators are host code), a null example under "
       "`nullable: true` with another type and an integer literal under type float (left open), exponents in rule "
       "values, non-ASCII strings, more digits than stated.",
  ref="DESIGN.md §4 C01"),
 "C03": dict(
  text="Bounded symbolic model checking through Check(), Example() and GetAST(): 8 structural JSON skeletons (scalar, one/two-member "
       "objects, arrays, nesting, empty containers) whose keys and string values are made of 0-1/2 symbolic pieces (plain byte incl. "
       "structural characters and DEL, simple escape, \\u00XX with symbolic hex, concrete 2/3/4-byte UTF-8, a surrogate pair), numbers with "
       "sign/fraction, true/false/null, and symbolic whitespace gaps: the text is accepted, Example() decodes (reference decoder, itself "
       "validated natively against encoding/json on 637k short strings + 100k documents) to the same keys, order and literals, and the "
       "AST is the same tree with decoded keys and string values.",
  note="Duplicate keys and exponent numbers are excluded by the property; deeper/wider documents than the skeletons are outside.",
  ref="DESIGN.md §4 C03"),
 "C15": dict(
  text="Bounded symbolic model checking of Len(): 16 complete jschema root templates (object, array, string, number, literal, inline and "
       "multi-line annotated scalars incl. notes ending in '#', \\u escapes in the value and inside an annotation string, rules "
       "followed by a bare dash, @ref, @a | @b, annotated members) with symbolic scalars: Len(S) <= "
       "len(S), S[:Len(S)] has the same verdict/code and AST, Len is idempotent on the prefix; and Len(S + optional trailing blanks + newline(LF/CR/CRLF) + "
       "optional indentation + c + rest) == Len(S) for every first byte c that is not a blank, '/' or '#' and every rest of up to 1/2 "
       "arbitrary bytes. The same boundary property for enum rules (5 templates) and JSON documents with the trailing-characters option.",
  note="The repository's test corpus is not replayed here; follow-up texts starting with blanks only are outside.",
  ref="DESIGN.md §4 C15"),

 "C05": dict(
  text="Bounded symbolic model checking through UsedUserTypes() and Check(): 16 reference positions (value shortcut, @a | @b, key "
       "shortcut, type, or item string, or rule-set type alone and with further rules (unnamed types), allOf, additionalProperties, "
       "nested array/object, allOf list + own member, nested allOf, allOf on an array item, quoted type-like key, repeated key shortcut; "
       "UsedUserTypes() also asked after Check()) "
       "whose target names are symbolic letters over {@a,@b,@c} - the collector's de-duplication map and the type table are looked up "
       "with symbolic keys, so the solver decides which names coincide - under every subset of registered types (symbolic flags): "
       "UsedUserTypes() equals the distinct names in text order regardless of registration; Check() reports code 1302 naming a "
       "missing type iff a referenced type is unregistered and accepts otherwise; registering an unreferenced extra type changes "
       "neither verdict/code, used-type list, example nor AST (two-run comparison).",
  note="Graphs over more than three names and reference nesting deeper than the templates are outside; registered type bodies are "
       "chosen per template so that a missing type is the only possible rejection reason.",
  ref="DESIGN.md §4 C05"),
 "C06": dict(
  text="Bounded symbolic model checking of the recursion checker and the example builder: ALL reference graphs over 3 object types with "
       "1 (quick) / 1-2 (thorough) members, every member an edge of kind required / optional / nullable / array / choice to "
       "arbitrary targets; the root is the type @a checked under its own name with every type registered: (1) code 104 is only "
       "reported when the root has no finite instance (least-fixpoint oracle); (2) a root that reaches itself through mandatory "
       "plain links is reported; (3) when Check() passes, Example() terminates within the step budget and is RFC 8259 JSON. Two more "
       "families in both tiers: two types of which one has TWO members of every kind and target (so an optional/nullable/array/choice "
       "member stands before or after a mandatory link; `optional: false` written out; the second type's root object optionally "
       "nullable; all schemas optionally built with keys optional by default), and four-type choice shapes with dead-end alternatives.",
  note="After the forks on edge kinds and targets the runs are concrete: the solver's role here is exhaustive enumeration of the "
       "bounded graph space through the real pipeline. Known finding C06-long-mandatory-cycle (cycles through two or more other "
       "types pass Check) is reported as KNOWN-FINDING.",
  ref="DESIGN.md §4 C06"),
 "C07": dict(
  text="Bounded symbolic model checking of allOf compilation: shapes single parent, chain of two, two parents, diamond, cycle, non-object "
       "parent (number, string, array, reference), missing parent, with property keys as symbolic one-byte strings (overlaps decided "
       "by the solver) and symbolic optional flags; and child x parent additionalProperties over {absent, true, false, \"string\", "
       "\"integer\", \"@t\"}^2. Refused iff a duplicate key, non-object/missing/cyclic parent or differing additionalProperties; when "
       "merged, the compiled ObjectNode has own keys then inherited ones in order, each marked with the parent named in this "
       "object's allOf and keeping its optional flag, a lookup by name finds that same property, the compiled node's own AST lists "
       "them with their origin, Example() shows exactly that key set in order, and openapi.Dereference(root) is one object whose "
       "PropertiesInfos() are exactly those keys with their optional status in order, on every call, also for a root that is a choice "
       "between two heirs of one parent. Heirs: required keys (also with keys optional by default), nested heirs in referenced types, "
       "heirs that are array items, inherited objects.",
  note="Deeper DAGs than the listed shapes are outside.",
  ref="DESIGN.md §4 C07"),

 "C04": dict(
  text="Bounded symbolic model checking of GetAST() against a schema MODEL printed to text: an integer with 0-3 rules from {min, max, "
       "nullable} in eleven orders (one name optionally quoted), rules only / note only / rules + note, inline or multi-line; objects "
       "and arrays whose members are an annotated number, a multi-line annotated string, a reference, a type choice and a key "
       "shortcut; nested `or` lists with a rule set and a type name (also a rule set that starts with an enum list), `enum` lists of "
       "five kinds, 19-20 digit maxLength/maxItems values, the remaining rule kinds (type, precision, exclusiveMinimum/Maximum, const, "
       "minLength, regex with escapes, additionalProperties, a format type) in written and reversed order, and \\u escapes with lower- "
       "and upper-case hex digits in values and enum items (each family must be accepted on some path). Digits, characters and notes (0-2 bytes) are symbolic. The real AST is walked in package: one node per element in "
       "source order with kind, key, shortcut flag, decoded value, trimmed note and exactly the written rules - names, order and "
       "values including nested Items/Properties.",
  note="Rules the loader derives from a shortcut (type / or with Source=Generated) are not 'written' rules and are ignored; "
       "json.Marshal of the AST is outside; only schemas that pass Check() are considered.",
  ref="DESIGN.md §4 C04"),
 "C08": dict(
  text="Bounded symbolic model checking, claimed in part (struct level, scalars): for scalar schemas with min/max (optionally exclusive) "
       "over signed decimals, minLength/maxLength, two-entry enums, and integer+nullable, the real jsoac.newNode is executed on "
       "the real AST and a JSON-Schema evaluator written in the harness interprets the resulting Go struct (type, nullable, enum, "
       "minimum/maximum with OpenAPI 3.0 boolean exclusivity, minLength/maxLength; numeric comparisons with exact integers): when "
       "Check() accepts, Example() is a valid instance, and so is every other value of the same literal kind that the same rules "
       "accept. A second harness does the same for trees: objects (properties, required), arrays (items as anyOf, minItems/maxItems), "
       "`or` alternatives, null/nullable (null as the one variation of a nullable root, also for `@a | @b` and `@a` shortcuts), quoted "
       "type-like keys, additionalProperties (false / a registered type) seen from the SAME Schema Object only, allOf as 'instance of "
       "every referenced conversion', two `or` alternatives of the same type, null examples under `or`, key shortcuts whose type is an "
       "escaped string, an alias or a choice, a type recursive through a nullable required member, const inside an `or` alternative, "
       "a key shortcut followed by a literal key, and references resolved to the conversions of the registered types (18 shapes, symbolic scalars). "
       "`pattern`: for 10 concrete regex rules with escapes the keyword is one JSON string that decodes to exactly the rule's "
       "expression and matches the example.",
  note="Outside the claim: the JSON TEXT of the conversion (encoding/json reflection is not executed: well-formedness, key escaping, "
       "omitempty), typed additionalProperties other than a user type (treated as 'anything goes'), pattern, format. Known finding "
       "C08-allof-additional-properties-false (heir and parent refuse each other's members) is reported as KNOWN-FINDING.",
  ref="DESIGN.md §4 C08"),
 "C09": dict(
  text="Bounded symbolic model checking of determinism: a project of three user types, each broken or not depending on a symbolic digit "
       "(constraint violation, string length violation, a rule-set (unnamed) type), is processed (a) under the insertion map order and "
       "under 3/5 other modelled iteration orders, (b) under all six AddType permutations, (c) twice on fresh objects - every %p "
       "yields fresh symbolic address bytes, so any observable that mentions an address differs between the runs - and the "
       "observables (error code, message, index, offending type; or example, used types, Len) are asserted equal, i.e. the solver "
       "decides the equality for all digit values; plus enum rules with two entries under two map orders; nodes carrying several "
       "offending rules (banned for a format type, or string rules on an integer), in the schema itself or inherited through allOf, "
       "under 4 map orders; three repeated Example()/Check() calls on one object; enum rule objects repeat their verdict (first call vs "
       "later calls, 8 texts incl. ones refused after some values were read); three unreached types with broken allOf under map and "
       "registration orders. GuessSchemaType under "
       "map orders is part of C20.",
  note="Map order and heap addresses are engine parameters / symbolic models, not Go's real randomisation; native confirmation of such "
       "a counterexample repeats the case up to 200 times. The OpenAPI Schema Object trees of the root and of every type are compared "
       "structurally (zzverif.Same) across map orders, registration orders and repetition; the marshalled TEXT is outside.",
  ref="DESIGN.md §4 C09"),
 "C10": dict(
  text="Bounded symbolic model checking of result stability and history independence, claimed in part: sequences of 2/3 operations "
       "(Example, UsedUserTypes, Check, Len) over eleven schema texts with symbolic digits/letters - valid ones (incl. a root array, "
       "a long example, a comment-only text), texts failing in the scanner, in the loader, after the root exists, after the load "
       "(checker, unknown type) and one whose Example() fails inside a nested member - sharing objects across steps, under the LIFO model of sync.Pool (Get returns the most "
       "recent Put): every returned byte slice / list still equals the snapshot taken when it was returned, and every result equals "
       "the one obtained with the 'always New' pool model on fresh objects (what a fresh process computes), and every returned example "
       "is RFC 8259 JSON. A refused AddType (taken or invalid name) leaves UserTypeCollection, Check() and Example() as they were; the "
       "OpenAPI conversion (struct level) leaves the AST intact. One type object shared by two schemas: after a first compile that fails "
       "half-way (parent missing, not an object, or repeating a key there) the second schema gets a fresh process's results; inherited by two heirs under "
       "two names, the first heir and the type itself keep their origin marks. Regex examples do not depend on earlier objects "
       "(sequential model of sync.Map for process-wide caches).",
  note="sync.Pool is modelled (LIFO / fresh), not executed; OpenAPI marshalers are outside (reflection).",
  ref="DESIGN.md §4 C10"),
 "C14": dict(
  text="Bounded symbolic model checking of layout independence: eight schema models (annotated number, string with an `or` rule, object "
       "with annotated members and a reference, array with a note and a type choice, members followed by user comments, a reference "
       "to a named enum rule as last/only rule, allOf of two types with a reference as last member, a schema that is one reference; digits, "
       "letters and notes symbolic; each of the ten models must be accepted on some path) are printed "
       "canonically and with ONE layout dimension changed (thorough: plus a second one out of line ends, /* */ style, user comments) - LF/CRLF/CR, indentation, blanks after colons, "
       "blanks before annotations, blanks between a rule name and its colon, blanks before the closing brace of a rule set, the spelling "
       "of the bar of a type choice (AST compared with blanks inside reference texts removed), list items of a rule on their own lines, "
       "blanks after the annotation introducer, blanks between the brackets of an empty container, // vs "
       "/* */, quoted vs bare rule names, # line comments and ### block comments, leading and "
       "trailing blank lines - with @u registered or not: same verdict and error code; when accepted the same AST, example and "
       "used-type list. A second harness (package jsoac) takes the same pairs with notes from a fixed list, also with /* */ notes "
       "that continue on the next line, and asserts that the OpenAPI Schema Object trees are structurally equal (engine intrinsic "
       "zzverif.Same: every field of every node, descriptions included).",
  note="The repository's test corpus under layout transforms is not replayed; the OpenAPI TEXT (json.Marshal) is outside, the "
       "Schema Object structs it is marshalled from are inside.",
  ref="DESIGN.md §4 C14"),
}

NOT_APPLICABLE = {
 "C11": "quantifies over goroutine schedules / data races; the sequential symbolic interpreter has no interleaving "
        "semantics or happens-before oracle, and the repository contains no go statement to encode (DESIGN.md §5)",
}

def main():
    checks = []
    for pid in sorted(CHECKS):
        c = CHECKS[pid]
        checks.append({
            "property_id": pid,
            "quick_cmd": f"/verif/bin/symgo check -prop {pid} -tier quick",
            "thorough_cmd": f"/verif/bin/symgo check -prop {pid} -tier thorough",
            "evidence_file": f"/verif/evidence/{pid}.json",
            "replay_cmd_template": "/verif/bin/symgo replay {path}",
            "engine": "symgo",
            "level_claimed": {"category": "model_checking", "text": c["text"], "design_ref": c["ref"]},
            "level_note": TRUST + c["note"],
            "technique": TECH,
        })
    all_ids = [f"C{n:02d}" for n in range(1, 21)]
    na = []
    for pid in all_ids:
        if pid in CHECKS:
            continue
        reason = NOT_APPLICABLE.get(pid, "check not built yet in this session (work in progress); will be claimed once its harness runs clean on the unchanged tree")
        na.append({"property_id": pid, "reason": reason})
    m = {
        "version": 1,
        "setup_cmd": "cd /verif/engine && GOFLAGS=-mod=mod GOPROXY=off GOSUMDB=off GOTOOLCHAIN=local go build -o /verif/bin/symgo . && /verif/bin/symgo selftest",
        "hooks": {
            "guard": "verif",
            "enable": "no hooks: harnesses and the zzverif support package are injected with go/packages Overlay (engine) and go test -overlay (native replay); /repo is never written by a check",
            "baseline_off_cmd": "cd /repo && GOFLAGS=-mod=mod go test -json -vet=off -count=1 -timeout 25m ./...",
            "source_commits": [],
            "add_only": True,
        },
        "engines": [{
            "name": "symgo", "path": "/verif/engine", "serves_properties": sorted(CHECKS),
            "kind_free_text": "forking symbolic interpreter over go/ssa of the real code (rebuilt from /repo on every run) + z3 via SMT-LIB2; native replay of models with go test -overlay",
        }],
        "checks": checks,
        "not_applicable": na,
        "notes": "exit 0 = every obligation discharged inside the bounds; exit 1 = VIOLATION reproduced natively; exit 3 = inconclusive (never a pass). See DESIGN.md.",
    }
    json.dump(m, open("/verif/MANIFEST.json", "w"), indent=1)
    print("checks:", [c["property_id"] for c in checks])

main()
