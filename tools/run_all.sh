#!/bin/bash
# Runs every registered quick (or $1) check sequentially against /repo; prints one line per check.
tier=${1:-quick}
cd /verif
for p in $(python3 -c "import json;print(' '.join(c['property_id'] for c in json.load(open('/verif/MANIFEST.json'))['checks']))"); do
  s=$(date +%s)
  out=$(./bin/symgo check -prop $p -tier $tier 2>&1)
  rc=$?
  e=$(date +%s)
  echo "$p exit=$rc wall=$((e-s))s $(echo "$out" | grep -c '^KNOWN-FINDING') known; $(echo "$out" | grep '^VIOLATION\|^INCONCLUSIVE' | head -2 | tr '\n' ' ' | cut -c1-200)"
done
